package main

// c05.go — append-only: no mutation of shared entries (E7 freshness), the index only grows, accessors do
// not leak the live index.

import (
	"fmt"
	"go/ast"
	"go/token"
	"go/types"
	"sort"
	"strings"

	"golang.org/x/tools/go/ssa"
)

func init() {
	register(&PropSpec{ID: "C05", Level: "other", Run: runC05,
		Explanation: "Decides on every path of the first-party code: (R-C05.1) every call of a mutating method of the entry/clock interfaces (Set*, SetAdditionalDataValue, Tick, Merge, SetID, SetTime) and every field store to entry.Entry/entry.LamportClock outside their own methods has a receiver that is fresh on every path — the result of Copy()/New()/a composite literal/a fresh-returning constructor/a clock factory — or a parameter that every first-party caller passes fresh (followed two call levels); a mutation guarded by a field that is never assigned is recorded as dead-guarded; (R-C05.2) the ordered index has no deletion and its key list is only ever extended, and IPFSLog.Entries is reassigned only on nil-initialisation or under the bounded-merge condition; Entries.Set in difference is dominated by the key being absent; (R-C05.3) no exported method returns the live Entries/Next map (only copies). Not covered: byte-identity under a dishonest block store, the subsequence relation between successive Values().",
	})
}

type freshEngine struct {
	p          *Prog
	cg         *CG
	mutators   map[string]bool
	freshRet   map[*Fn]int // 0 unknown, 1 yes, 2 no
	argOrFresh map[*Fn]bool
}

func (fe *freshEngine) isEntryLike(t types.Type) bool {
	p := fe.p
	return isNamed(t, p.pkgPath("iface"), "IPFSLogEntry") || isNamed(t, p.pkgPath("iface"), "IPFSLogLamportClock") ||
		isNamed(t, p.pkgPath("entry"), "Entry") || isNamed(t, p.pkgPath("entry"), "LamportClock")
}

// returnsFresh: every return of fn yields a composite literal / address of one / another fresh-returning call.
func (fe *freshEngine) returnsFresh(fn *Fn, depth int) bool {
	if fn == nil || depth > 4 {
		return false
	}
	switch fe.freshRet[fn] {
	case 1:
		return true
	case 2:
		return false
	}
	fe.freshRet[fn] = 2
	ok, any := true, false
	walkNoLit(fn.Body, func(n ast.Node) bool {
		ret, isRet := n.(*ast.ReturnStmt)
		if !isRet || len(ret.Results) == 0 {
			return true
		}
		any = true
		if !fe.freshExpr(fn, ret.Results[0], nil, depth+1) {
			ok = false
		}
		return true
	})
	if ok && any {
		fe.freshRet[fn] = 1
		return true
	}
	return false
}

// freshExpr: e evaluates to a value no one else holds yet.
func (fe *freshEngine) freshExpr(fn *Fn, e ast.Expr, facts Facts, depth int) bool {
	p := fe.p
	e = ast.Unparen(e)
	switch x := e.(type) {
	case *ast.CompositeLit:
		return true
	case *ast.UnaryExpr:
		if x.Op == token.AND {
			_, ok := ast.Unparen(x.X).(*ast.CompositeLit)
			return ok
		}
	case *ast.Ident:
		if facts != nil {
			if o := p.ObjOf(fn, x); o != nil && facts["fresh|"+p.ID(o)] {
				return true
			}
		}
	case *ast.CallExpr:
		if se, ok := ast.Unparen(x.Fun).(*ast.SelectorExpr); ok && (se.Sel.Name == "Copy" || se.Sel.Name == "New") && len(x.Args) == 0 {
			if fe.isEntryLike(p.TypeOf(fn, se.X)) {
				return true
			}
		}
		// factory value: func() Clock parameter/variable
		if id, ok := ast.Unparen(x.Fun).(*ast.Ident); ok {
			if v, ok := p.ObjOf(fn, id).(*types.Var); ok {
				if sig, ok := v.Type().Underlying().(*types.Signature); ok && sig.Params().Len() == 0 && sig.Results().Len() == 1 && fe.isEntryLike(sig.Results().At(0).Type()) {
					return true
				}
			}
		}
		if cf := p.Callee(fn, x); cf != nil {
			if t := p.ByObj[cf]; t != nil && fe.returnsFresh(t, depth) {
				return true
			}
			// fresh-or-argument: the result is fresh or one of the entry-like arguments — then it is fresh when
			// every entry-like argument is
			var targets []*Fn
			if t := p.ByObj[cf]; t != nil {
				targets = []*Fn{t}
			} else {
				targets = fe.cg.Implementers(cf)
			}
			if len(targets) > 0 && depth < 3 {
				ok, anyEntry := true, false
				for _, a := range x.Args {
					if fe.isEntryLike(p.TypeOf(fn, a)) {
						anyEntry = true
						if !fe.freshExpr(fn, a, facts, depth+1) {
							ok = false
						}
					}
				}
				if ok && anyEntry {
					for _, t := range targets {
						if !fe.returnsArgOrFresh(t) {
							ok = false
						}
					}
					if ok {
						return true
					}
				}
			}
		}
	}
	return false
}

// returnsArgOrFresh: every success return yields the first parameter (possibly reassigned from a fresh value) or a fresh value.
func (fe *freshEngine) returnsArgOrFresh(fn *Fn) bool {
	p := fe.p
	if v, ok := fe.argOrFresh[fn]; ok {
		return v
	}
	if fe.argOrFresh == nil {
		fe.argOrFresh = map[*Fn]bool{}
	}
	fe.argOrFresh[fn] = false // recursion guard
	pars := map[types.Object]bool{}
	for i := 0; ; i++ {
		po := paramObjAny(fn, i)
		if po == nil {
			break
		}
		if fe.isEntryLike(po.Type()) {
			pars[po] = true
		}
	}
	fl := fe.flow(fn)
	ok := true
	fl.Exits(func(_ *cfgBlk, ret *ast.ReturnStmt, at Facts) {
		if ret == nil || len(ret.Results) == 0 {
			return
		}
		e := ast.Unparen(ret.Results[0])
		if isNilIdent(e) {
			return
		}
		if id, isId := e.(*ast.Ident); isId && pars[p.ObjOf(fn, id)] {
			return
		}
		// treat the entry-like parameters as fresh inside the helper: the result is then "fresh or argument"
		at2 := at.Clone()
		for po := range pars {
			at2["fresh|"+p.ID(po)] = true
		}
		if !fe.freshExpr(fn, e, at2, 1) {
			ok = false
		}
	})
	fe.argOrFresh[fn] = ok
	return ok
}

// flow: must-facts fresh|<var>.
func (fe *freshEngine) flow(fn *Fn) *Flow {
	p := fe.p
	fl := &Flow{P: p, Fn: fn, Entry: Facts{}}
	fl.Node = func(n ast.Node, f Facts) {
		walkNoLit(n, func(nd ast.Node) bool {
			switch x := nd.(type) {
			case *ast.AssignStmt:
				for i, l := range x.Lhs {
					id, ok := ast.Unparen(l).(*ast.Ident)
					if !ok {
						continue
					}
					o := p.ObjOf(fn, id)
					if o == nil {
						continue
					}
					var rhs ast.Expr
					if len(x.Rhs) == len(x.Lhs) {
						rhs = x.Rhs[i]
					} else if len(x.Rhs) == 1 && i == 0 {
						rhs = x.Rhs[0] // v, err := f()
					}
					if rhs != nil && fe.freshExpr(fn, rhs, f, 0) {
						f["fresh|"+p.ID(o)] = true
					} else {
						delete(f, "fresh|"+p.ID(o))
					}
				}
			case *ast.ValueSpec:
				for i, nm := range x.Names {
					if o := p.ObjOf(fn, nm); o != nil && i < len(x.Values) && fe.freshExpr(fn, x.Values[i], f, 0) {
						f["fresh|"+p.ID(o)] = true
					}
				}
			}
			return true
		})
	}
	fl.Run()
	return fl
}

type mutSite struct {
	fn   *Fn
	pos  token.Pos
	what string
	recv ast.Expr
}

func runC05(c *Ctx, r *Report) {
	p := c.P
	r.Doc("R-C05.1", "mutating entry/clock methods and field stores only on fresh receivers")
	r.Doc("R-C05.2", "the index only grows: no deletion, key list only extended, Entries reassigned only on nil-init or bounded merge, insertion only of absent keys")
	r.Doc("R-C05.3", "exported accessors never return the live Entries/Next map")
	r.Doc("R-C05.4", "installing a new entry replaces the heads atomically with reading them (one critical section)")
	r.Doc("R-C05.5", "a refused append or merge changes nothing: partial state left by a failed operation makes entries vanish from later views")
	refusedOperationsLeaveNoTrace(c, r, "R-C05.5")
	r.Doc("R-C05.6", "the head scan used by merges and loaders is exact: an entry wrongly treated as referenced (or a head never examined) disappears from the views although it is still indexed")
	findHeadsShape(c, r, "R-C05.6")
	r.Doc("R-C05.7", "a merge never swaps an entry object the log holds for the other log's object of the same hash: the views keep returning the byte-identical entry that was validated")
	mergedHeadObjects(c, r, "R-C05.7")
	r.Doc("R-C05.8", "every insertion into an entry map is keyed by the inserted entry's own hash, by the key it was looked up with, or (predecessor index) by one of its own links")
	indexKeys(c, r, "R-C05.8")
	r.Doc("R-C05.10", "every store to the log's index, heads, predecessor index and clock happens under the log's write lock (two appends under a shared lock overwrite each other's head and lose an entry from the views)")
	importRules(c, r, "C13", []string{"R-C13.1"}, "R-C05.10")
	r.Doc("R-C05.12", "a merged entry is stored under the key by which it was found absent: Join files a candidate under its index key, or under its own hash after having refused every candidate whose hash differs from its key (an entry filed under one key that claims the hash of an entry the log holds would otherwise replace that entry)")
	{
		join := p.FuncI("", "IPFSLog", "Join")
		entriesF := p.Field("", "IPFSLog", "Entries")
		// key variables: range values of loops over <x>.Keys() (or over a local that holds one), locals
		// copied from one, and parameters of literals and declared helpers called with one
		keyVars := map[types.Object]bool{}
		scope := map[*Fn]bool{}
		var work []*Fn
		addFn := func(f *Fn) {
			if f != nil && f.Body != nil && !scope[f] {
				scope[f] = true
				work = append(work, f)
			}
		}
		for _, fn := range p.AllViews(join) {
			addFn(fn)
		}
		isKeysCall := func(fn *Fn, e ast.Expr) bool {
			if keysCollection(p, fn, e, 0) != nil {
				return true
			}
			// Keys() of something that is not a plain variable (a field, a call result)
			e = ast.Unparen(peelSliceCopy(p, fn, e))
			call, ok := e.(*ast.CallExpr)
			if !ok {
				return false
			}
			se, ok := ast.Unparen(call.Fun).(*ast.SelectorExpr)
			return ok && se.Sel.Name == "Keys"
		}
		isKey := func(fn *Fn, e ast.Expr) bool {
			id, ok := ast.Unparen(e).(*ast.Ident)
			return ok && keyVars[p.ObjOf(fn, id)]
		}
		for changed := true; changed; {
			changed = false
			mark := func(o types.Object) {
				if o != nil && !keyVars[o] {
					keyVars[o] = true
					changed = true
				}
			}
			for i := 0; i < len(work); i++ {
				fn := work[i]
				ast.Inspect(fn.Body, func(n ast.Node) bool {
					switch x := n.(type) {
					case *ast.RangeStmt:
						if id, ok := x.Value.(*ast.Ident); ok && isKeysCall(fn, x.X) {
							mark(p.ObjOf(fn, id))
						}
					case *ast.AssignStmt:
						if len(x.Lhs) == len(x.Rhs) {
							for j, rh := range x.Rhs {
								if id, ok := x.Lhs[j].(*ast.Ident); ok && isKey(fn, rh) {
									if o := p.ObjOf(fn, id); o != nil && p.SoleDef(p.EnclosingFn(id), o) != nil {
										mark(o)
									}
								}
							}
						}
					case *ast.CallExpr:
						var callee *Fn
						if lit, ok := ast.Unparen(x.Fun).(*ast.FuncLit); ok {
							callee = p.ByLit[lit]
						} else if f := p.Callee(fn, x); f != nil {
							callee = p.ByObj[f]
						}
						if callee == nil {
							return true
						}
						for j, a := range x.Args {
							if isKey(fn, a) {
								if po := paramObjAny(callee, j); po != nil {
									mark(po)
									addFn(callee)
								}
							}
						}
					}
					return true
				})
			}
		}
		// is there a comparison of an entry's own hash with its key that refuses on mismatch?
		refuses := false
		for fn := range scope {
			ast.Inspect(fn.Body, func(n ast.Node) bool {
				be, ok := n.(*ast.BinaryExpr)
				if !ok || (be.Op != token.NEQ && be.Op != token.EQL) {
					return true
				}
				for _, pair := range [][2]ast.Expr{{be.X, be.Y}, {be.Y, be.X}} {
					if !isKey(fn, pair[1]) {
						continue
					}
					ast.Inspect(pair[0], func(m ast.Node) bool {
						if se, ok := m.(*ast.SelectorExpr); ok && se.Sel.Name == "GetHash" {
							refuses = true
						}
						return true
					})
				}
				return true
			})
		}
		nset := 0
		for _, fn := range p.AllViews(join) {
			walkNoLit(fn.Body, func(n ast.Node) bool {
				call, ok := n.(*ast.CallExpr)
				if !ok || len(call.Args) != 2 {
					return true
				}
				se, ok := ast.Unparen(call.Fun).(*ast.SelectorExpr)
				if !ok || se.Sel.Name != "Set" {
					return true
				}
				if v, _ := p.FieldSel(fn, se.X); v != entriesF {
					return true
				}
				nset++
				byKey := false
				if id, ok := ast.Unparen(call.Args[0]).(*ast.Ident); ok && keyVars[p.ObjOf(fn, id)] {
					byKey = true
				}
				r.Check(byKey || refuses, "R-C05.12", r.Key("R-C05.12", fn, "stored-under-checked-key", ""), call.Pos(),
					"a candidate is stored under the key it was found absent by (or its hash was compared with that key and a mismatch refuses the merge)",
					"Join stores a candidate under `"+types.ExprString(call.Args[0])+"` although it was found to be new by its key in the other log's index, and nothing refuses a candidate whose own hash differs from that key: an entry that claims the hash of an entry the log holds replaces it — the log returns other content under that hash from then on")
				return true
			})
		}
		r.Floor("R-C05.12", "insertions into the entry index in Join", nset, 1)
	}
	r.Doc("R-C05.13", "a slice handed out by a getter (the keys of an entry map, an entry's links, payload, key or signature) is never written in place by the caller: no element store, append onto it, in-place sort or copy into it, directly or through a helper — the objects are shared between logs and their content must stay what it was")
	sharedSlicesReadOnly(c, r, "R-C05.13")
	r.Doc("R-C05.14", "an error sent to the blank identifier is one the call cannot produce, unless the value received beside it is tested for nil: the linearised view is computed by a walk whose error the view ignores, so every failing return of the walk must be ruled out at that call (a walk that can stop early with an error makes Values() silently shorter than the previous view)")
	discardedErrorsCannotOccur(c, r, "R-C05.14", func(fn *Fn) bool { return true }, map[string]string{
		"f.fetchEntry": "a block that cannot be loaded or decoded is skipped by design (R-C12.5 keeps failed decodes nil)",
	}, "entries that are in the log are missing from the view")
	r.Doc("R-C05.15", "every writer stamps its entries with its own key as clock id, also after the identity was replaced (adopted from C04: two identities writing under one clock id produce ties the default ordering answers inconsistently, and a later view is then no extension of the earlier one)")
	importRules(c, r, "C04", []string{"R-C04.1", "R-C04.2"}, "R-C05.15")
	r.Doc("R-C05.16", "the walk re-sorts its stack after every growth before it pops again (adopted from C03: with an order that rests on the order in which some writer listed an entry's links, a later merge that puts an unrelated entry on the stack swaps two entries of the earlier view)")
	importRules(c, r, "C03", []string{"R-C03.2"}, "R-C05.16")
	r.Doc("R-C05.17", "every addition to the skip references of the new entry is made under a test against its predecessors (adopted from C04: heads moved from the predecessor list to the references drop out of the view with the next append — the walk follows predecessors only)")
	importRules(c, r, "C04", []string{"R-C04.12"}, "R-C05.17")
	r.Doc("R-C05.18", "the appended entry names every head (adopted from C04: a predecessor list cut to a bound leaves heads unnamed; the new entry is the only head afterwards, so their branches vanish from the linearised view)")
	importRules(c, r, "C04", []string{"R-C04.13"}, "R-C05.18")
	r.Doc("R-C05.11", "Entry.Copy builds the copy field by field (or replaces every reference-typed field of a struct copy on every path): the copy shares no map or clock with the original")
	entryCopyFieldwise(c, r, "R-C05.11")
	r.Doc("R-C05.9", "a copied entry shares no mutable map or clock object with its original: Copy stores a freshly made map and a fresh clock (the link-encrypting codec and the signer write into the copy's additional data)")
	{
		cp := p.FuncI("entry", "Entry", "Copy")
		scp := p.SSAFunc(cp)
		entT := p.Named("entry", "Entry")
		ncp := 0
		allInstrs(scp, false, func(ins ssa.Instruction) {
			st, ok := ins.(*ssa.Store)
			if !ok {
				return
			}
			f, fa := fieldOf(st.Addr)
			if f == nil || namedOf(fa.X.Type()) != entT {
				return
			}
			if _, isAlloc := fa.X.(*ssa.Alloc); !isAlloc {
				return
			}
			_, isMap := f.Type().Underlying().(*types.Map)
			isClock := f.Name() == "Clock"
			if !isMap && !isClock {
				return
			}
			ncp++
			shared := ""
			var leaves func(v ssa.Value, depth int)
			leaves = func(v ssa.Value, depth int) {
				if depth > 6 {
					return
				}
				switch x := v.(type) {
				case *ssa.Phi:
					for _, e := range x.Edges {
						leaves(e, depth+1)
					}
				case *ssa.MakeMap, *ssa.Const, *ssa.Call, *ssa.Alloc:
					// fresh map, nil, the result of a copying helper, a new object
				case *ssa.UnOp:
					if x.Op == token.MUL {
						if a, ok := x.X.(*ssa.Alloc); ok {
							for _, s2 := range cellStores(a) {
								leaves(s2.Val, depth+1)
							}
							return
						}
						if f2, _ := fieldOf(x.X); f2 != nil {
							shared = "the original's " + f2.Name()
							return
						}
					}
					shared = "a value loaded from the original"
				case *ssa.ChangeType:
					leaves(x.X, depth+1)
				case *ssa.MakeInterface:
					leaves(x.X, depth+1)
				default:
					shared = "a value that is not freshly made"
				}
			}
			leaves(st.Val, 0)
			r.Check(shared == "", "R-C05.9", r.Key("R-C05.9", cp, "fresh", f.Name()), st.Pos(), "the copy's "+f.Name()+" is a freshly made object",
				"the copy's "+f.Name()+" can be "+shared+" itself: writing into the copy (the pre-sign step does) changes the entry another log holds")
		})
		r.Floor("R-C05.9", "map/clock fields set by Entry.Copy", ncp, 2)
	}
	appendSingleSection(c, r, "R-C05.4", "a merge or append landing in the window has its heads overwritten: entries stay in the index but disappear from Values(), so successive views are not subsequences")
	fe := &freshEngine{p: p, cg: c.CG, mutators: map[string]bool{}, freshRet: map[*Fn]int{}}
	for _, it := range []string{"IPFSLogEntry", "IPFSLogLamportClock"} {
		iface := p.Named("iface", it).Underlying().(*types.Interface)
		for i := 0; i < iface.NumMethods(); i++ {
			n := iface.Method(i).Name()
			if strings.HasPrefix(n, "Set") || n == "Tick" || n == "Merge" {
				fe.mutators[n] = true
			}
		}
	}
	r.Floor("R-C05.1", "mutating methods of the entry/clock interfaces", len(fe.mutators), 10)
	entryT, clockT := p.Named("entry", "Entry"), p.Named("entry", "LamportClock")

	// collect mutation sites
	var sites []mutSite
	for _, fn := range p.Fns {
		if strings.HasSuffix(fn.Pkg.PkgPath, "/test") || strings.HasSuffix(fn.Pkg.PkgPath, "/example") {
			continue
		}
		// skip the implementations' own methods
		root := fn.Root()
		if root.Decl != nil && root.Decl.Recv != nil && len(root.Decl.Recv.List) == 1 {
			if nt := namedOf(root.Pkg.TypesInfo.TypeOf(root.Decl.Recv.List[0].Type)); nt == entryT || nt == clockT {
				continue
			}
		}
		walkNoLit(fn.Body, func(n ast.Node) bool {
			switch x := n.(type) {
			case *ast.CallExpr:
				se, ok := ast.Unparen(x.Fun).(*ast.SelectorExpr)
				if !ok || !fe.mutators[se.Sel.Name] {
					return true
				}
				if !fe.isEntryLike(p.TypeOf(fn, se.X)) {
					return true
				}
				sites = append(sites, mutSite{fn, x.Pos(), se.Sel.Name, se.X})
			case *ast.AssignStmt:
				for _, l := range x.Lhs {
					if v, b := p.FieldSel(fn, stripIndexStar(l)); v != nil {
						if nt := namedOf(p.TypeOf(fn, b)); nt == entryT || nt == clockT {
							sites = append(sites, mutSite{fn, x.Pos(), "store ." + v.Name(), b})
						}
					}
				}
			}
			return true
		})
	}
	r.Floor("R-C05.1", "mutation sites outside the implementations", len(sites), 10)

	flows := map[*Fn]*Flow{}
	getFlow := func(fn *Fn) *Flow {
		if f, ok := flows[fn]; ok {
			return f
		}
		f := fe.flow(fn)
		flows[fn] = f
		return f
	}
	// factsAt: facts immediately before the node containing pos
	factsAt := func(fn *Fn, pos token.Pos) Facts {
		var res Facts
		getFlow(fn).Visit(func(_ *cfgBlk, n ast.Node, before Facts) {
			if n.Pos() <= pos && pos < n.End() && res == nil {
				res = before.Clone()
			}
		})
		if res == nil {
			res = Facts{}
		}
		return res
	}
	// paramFresh: the i-th parameter of fn is fresh at every first-party call site (depth-limited)
	var paramFresh func(fn *Fn, idx int, depth int) (bool, string)
	paramFresh = func(fn *Fn, idx int, depth int) (bool, string) {
		if depth > 2 {
			return false, "call depth"
		}
		ncall := 0
		for _, g := range p.Fns {
			if strings.HasSuffix(g.Pkg.PkgPath, "/test") || strings.HasSuffix(g.Pkg.PkgPath, "/example") {
				continue
			}
			for _, cs := range c.CG.Sites(g) {
				hit := false
				for _, t := range cs.Targets {
					if t == fn {
						hit = true
					}
				}
				if !hit || idx >= len(cs.Call.Args) {
					continue
				}
				ncall++
				arg := cs.Call.Args[idx]
				fa := factsAt(g, cs.Call.Pos())
				if fe.freshExpr(g, arg, fa, 0) {
					continue
				}
				if id, ok := ast.Unparen(arg).(*ast.Ident); ok {
					// caller forwards its own parameter
					for k := 0; ; k++ {
						po := paramObjAny(g.Root(), k)
						if po == nil {
							break
						}
						if p.ObjOf(g, id) == po {
							if ok2, why := paramFresh(g.Root(), k, depth+1); ok2 {
								goto next
							} else {
								return false, fmt.Sprintf("%s passes its own parameter %s (%s)", g.Name, id.Name, why)
							}
						}
					}
				}
				return false, fmt.Sprintf("%s passes %s at %s, which is not fresh", g.Name, types.ExprString(arg), p.Pos(cs.Call.Pos()))
			next:
			}
		}
		if ncall == 0 {
			return false, "no first-party caller (exported entry point receives the caller's object)"
		}
		return true, fmt.Sprintf("%d call sites all pass fresh values", ncall)
	}
	// fields never assigned (dead guards)
	assignedField := map[*types.Var]bool{}
	for _, fn := range p.Fns {
		ast.Inspect(fn.Body, func(n ast.Node) bool {
			switch x := n.(type) {
			case *ast.AssignStmt:
				for _, l := range x.Lhs {
					if v, _ := p.FieldSel(fn, l); v != nil {
						assignedField[v] = true
					}
				}
			case *ast.CompositeLit:
				for _, el := range x.Elts {
					if kv, ok := el.(*ast.KeyValueExpr); ok {
						if id, ok := kv.Key.(*ast.Ident); ok {
							if v, ok := p.ObjOf(fn, id).(*types.Var); ok && v.IsField() {
								assignedField[v] = true
							}
						}
					}
				}
			}
			return true
		})
	}
	for _, s := range sites {
		key := r.Key("R-C05.1", s.fn, s.what, types.ExprString(s.recv))
		fa := factsAt(s.fn, s.pos)
		if fe.freshExpr(s.fn, s.recv, fa, 0) {
			r.Hold("R-C05.1", key, s.pos, true, fmt.Sprintf("%s on %s: receiver is fresh on every path", s.what, types.ExprString(s.recv)))
			continue
		}
		// parameter?
		if id, ok := ast.Unparen(s.recv).(*ast.Ident); ok {
			o := p.ObjOf(s.fn, id)
			done := false
			for k := 0; ; k++ {
				po := paramObjAny(s.fn.Root(), k)
				if po == nil {
					break
				}
				if po == o {
					// the parameter must not have been reassigned non-fresh: it is either still the caller's value or fresh
					ok2, why := paramFresh(s.fn.Root(), k, 0)
					if ok2 {
						r.Hold("R-C05.1", key, s.pos, true, fmt.Sprintf("%s on parameter %s: %s", s.what, id.Name, why))
					} else if dead, g := deadGuard(p, s.fn, s.pos, assignedField); dead {
						r.Hold("R-C05.1", key, s.pos, true, fmt.Sprintf("%s on %s is dead-guarded: field %s is never assigned anywhere in first-party code (re-armed if a store appears)", s.what, id.Name, g))
					} else {
						r.Violate("R-C05.1", key, s.pos, fmt.Sprintf("%s mutates %s, which can be an entry already held by a log (or another log sharing it by pointer): %s", s.what, id.Name, why))
					}
					done = true
				}
			}
			if done {
				continue
			}
		}
		if dead, g := deadGuard(p, s.fn, s.pos, assignedField); dead {
			r.Hold("R-C05.1", key, s.pos, true, fmt.Sprintf("%s on %s is dead-guarded: field %s is never assigned anywhere in first-party code (re-armed if a store appears)", s.what, types.ExprString(s.recv), g))
			continue
		}
		r.Violate("R-C05.1", key, s.pos, fmt.Sprintf("%s mutates %s, which is not known to be a private copy: entries are shared by pointer between logs, so a log operation changes an entry that other observers hold", s.what, types.ExprString(s.recv)))
	}

	// ---- R-C05.2
	om := p.Named("entry", "OrderedMap")
	keysF, valuesF := p.Field("entry", "OrderedMap", "keys"), p.Field("entry", "OrderedMap", "values")
	nKeyStores := 0
	for i := 0; i < om.NumMethods(); i++ {
		fn := p.ByObj[om.Method(i)]
		if fn == nil {
			continue
		}
		walkNoLit(fn.Body, func(n ast.Node) bool {
			switch x := n.(type) {
			case *ast.CallExpr:
				if p.Builtin(fn, x) == "delete" && len(x.Args) > 0 {
					if v, _ := p.FieldSel(fn, x.Args[0]); v == valuesF {
						r.Violate("R-C05.2", r.Key("R-C05.2", fn, "delete", "values"), x.Pos(), "entries are deleted from the ordered index")
					}
				}
			case *ast.AssignStmt:
				for i, l := range x.Lhs {
					if v, b := p.FieldSel(fn, l); v == keysF && i < len(x.Rhs) {
						nKeyStores++
						ok := false
						if call, isCall := ast.Unparen(x.Rhs[i]).(*ast.CallExpr); isCall && p.Builtin(fn, call) == "append" && len(call.Args) >= 1 {
							if v2, b2 := p.FieldSel(fn, call.Args[0]); v2 == keysF && types.ExprString(b2) == types.ExprString(b) {
								ok = true
							}
						}
						r.Check(ok, "R-C05.2", r.Key("R-C05.2", fn, "store", "keys"), x.Pos(), "the key list is only extended (append to itself)", "the ordered index's key list is replaced by something other than an extension of itself: entries can vanish from the log")
					}
				}
			}
			return true
		})
	}
	r.Floor("R-C05.2", "stores to OrderedMap.keys in its methods", nKeyStores, 1)
	entriesF := p.Field("", "IPFSLog", "Entries")
	nEnt := 0
	inlinedSomewhere := map[string]bool{}
	for _, fn0 := range p.Fns {
		if fn0.Pkg.PkgPath == p.Mod && fn0.Parent == nil {
			for _, n := range p.Inl(fn0).Inlined {
				inlinedSomewhere[n] = true
			}
		}
	}
	for _, fn0 := range p.Fns {
		if fn0.Pkg.PkgPath != p.Mod || inlinedSomewhere[fn0.Name] {
			continue // an exclusive helper is analysed inside its caller's view
		}
		fn := p.Inl(fn0)
		fl := &Flow{P: p, Fn: fn, Entry: Facts{}}
		fl.Edge = func(cond ast.Expr, taken bool, f Facts) {
			for _, a := range splitCond(cond, taken) {
				if x, isNil, ok := nilTest(a); ok && isNil {
					if v, _ := p.FieldSel(fn, x); v == entriesF {
						f["nil-entries"] = true
					}
				}
				// a comparison mentioning an integer parameter (the bounded-merge condition)
				if be, ok := ast.Unparen(a.E).(*ast.BinaryExpr); ok {
					for _, side := range []ast.Expr{be.X, be.Y} {
						if id, ok := ast.Unparen(side).(*ast.Ident); ok {
							if v, ok := p.ObjOf(fn, id).(*types.Var); ok && isIntType(v.Type()) && paramOf(p, fn.Root(), v) {
								if (be.Op == token.GTR || be.Op == token.GEQ) == a.Truth || be.Op == token.NEQ {
									f["bounded|"+v.Name()] = true
								}
							}
						}
					}
				}
			}
		}
		has := false
		walkNoLit(fn.Body, func(n ast.Node) bool {
			if as, ok := n.(*ast.AssignStmt); ok {
				for _, l := range as.Lhs {
					if v, _ := p.FieldSel(fn, l); v == entriesF {
						has = true
					}
				}
			}
			return true
		})
		if !has {
			continue
		}
		fl.Run()
		fl.Visit(func(_ *cfgBlk, n ast.Node, before Facts) {
			walkNoLit(n, func(nd ast.Node) bool {
				if as, ok := nd.(*ast.AssignStmt); ok {
					for _, l := range as.Lhs {
						if v, _ := p.FieldSel(fn, l); v == entriesF {
							nEnt++
							ok := before["nil-entries"] || before.HasPrefix("bounded|")
							r.Check(ok, "R-C05.2", r.Key("R-C05.2", fn, "store", "Entries"), as.Pos(),
								"the entry index is replaced only on nil-initialisation or under the bounded-merge condition",
								"IPFSLog.Entries is reassigned on a path that is neither the nil-initialisation nor the size-bounded merge: entries held by the log can vanish after an unbounded operation")
						}
					}
				}
				return true
			})
		})
	}
	r.Floor("R-C05.2", "reassignments of IPFSLog.Entries", nEnt, 1)
	// insertion only of absent keys in difference
	diff := p.FuncI("", "", "difference")
	absent := map[types.Object]string{}
	walkNoLit(diff.Body, func(n ast.Node) bool {
		if as, ok := n.(*ast.AssignStmt); ok && len(as.Lhs) == 2 && len(as.Rhs) == 1 {
			if call, ok := ast.Unparen(as.Rhs[0]).(*ast.CallExpr); ok && len(call.Args) == 1 {
				if se, ok := ast.Unparen(call.Fun).(*ast.SelectorExpr); ok && se.Sel.Name == "Get" {
					if v, _ := p.FieldSel(diff, se.X); v == entriesF {
						if id, ok := as.Lhs[1].(*ast.Ident); ok && id.Name != "_" {
							absent[p.ObjOf(diff, id)] = types.ExprString(call.Args[0])
						}
					}
				}
			}
		}
		return true
	})
	dfl := &Flow{P: p, Fn: diff, Entry: Facts{}}
	dfl.Edge = func(cond ast.Expr, taken bool, f Facts) {
		for _, a := range splitCond(cond, taken) {
			if id, ok := ast.Unparen(a.E).(*ast.Ident); ok && !a.Truth {
				if k := absent[p.ObjOf(diff, id)]; k != "" {
					f["absent|"+k] = true
				}
			}
		}
	}
	dfl.Node = func(n ast.Node, f Facts) {
		for _, id := range assignedIdents(n) {
			f.DelPrefix("absent|" + id.Name)
			_ = id
		}
	}
	dfl.Run()
	nIns := 0
	dfl.Visit(func(_ *cfgBlk, n ast.Node, before Facts) {
		walkNoLit(n, func(nd ast.Node) bool {
			if call, ok := nd.(*ast.CallExpr); ok && len(call.Args) == 2 {
				if se, ok := ast.Unparen(call.Fun).(*ast.SelectorExpr); ok && se.Sel.Name == "Set" {
					if cf := p.Callee(diff, call); cf != nil && cf.Name() == "Set" {
						nIns++
						k := types.ExprString(call.Args[0])
						r.Check(before["absent|"+k], "R-C05.2", r.Key("R-C05.2", diff, "candidate", ""), call.Pos(),
							"a merge candidate is selected only when its key is absent from the destination index", "difference selects an entry whose key is already in the destination index: Join then overwrites the entry object held under that hash")
					}
				}
			}
			return true
		})
	})
	r.Floor("R-C05.2", "candidate selections in difference", nIns, 1)

	// ---- R-C05.3
	nextF := p.Field("", "IPFSLog", "Next")
	nAcc := 0
	for _, fn := range p.Fns {
		if fn.Pkg.PkgPath != p.Mod || fn.Obj == nil || !ast.IsExported(fn.Obj.Name()) || fn.Decl.Recv == nil {
			continue
		}
		alias := map[types.Object]*types.Var{}
		ast.Inspect(fn.Body, func(n ast.Node) bool { // also inside closures (a result variable set under a lock wrapper)
			if as, ok := n.(*ast.AssignStmt); ok && len(as.Lhs) == len(as.Rhs) {
				for i, l := range as.Lhs {
					if id, ok := l.(*ast.Ident); ok {
						if v, _ := p.FieldSel(fn, as.Rhs[i]); v == entriesF || v == nextF {
							alias[p.ObjOf(fn, id)] = v
						}
					}
				}
			}
			return true
		})
		walkNoLit(fn.Body, func(n ast.Node) bool {
			ret, ok := n.(*ast.ReturnStmt)
			if !ok {
				return true
			}
			for _, res := range ret.Results {
				var leaked *types.Var
				if v, _ := p.FieldSel(fn, res); v == entriesF || v == nextF {
					leaked = v
				}
				if id, ok := ast.Unparen(res).(*ast.Ident); ok {
					if v := alias[p.ObjOf(fn, id)]; v != nil {
						leaked = v
					}
				}
				if leaked != nil {
					r.Violate("R-C05.3", r.Key("R-C05.3", fn, "return", leaked.Name()), ret.Pos(), "exported method returns the log's live "+leaked.Name()+" map: the caller can add or replace entries behind the log's back (and reads race with writers)")
				}
			}
			return true
		})
		// positive instances: exported methods that hand out something derived from Entries via Copy
		ast.Inspect(fn.Body, func(n ast.Node) bool {
			if call, ok := n.(*ast.CallExpr); ok {
				if se, ok := ast.Unparen(call.Fun).(*ast.SelectorExpr); ok && se.Sel.Name == "Copy" && len(call.Args) == 0 {
					if v, _ := p.FieldSel(fn, se.X); v == entriesF || v == nextF {
						nAcc++
						r.Hold("R-C05.3", r.Key("R-C05.3", fn, "return-copy", v.Name()), call.Pos(), true, "accessor hands out a copy of "+v.Name())
					}
				}
			}
			return true
		})
	}
	r.Floor("R-C05.3", "copying accessors of the index", nAcc, 1)
	_ = sort.Strings
}

// deadGuard: the site is inside an if whose condition tests `x.F != nil` for a field F never assigned anywhere.
func deadGuard(p *Prog, fn *Fn, pos token.Pos, assigned map[*types.Var]bool) (bool, string) {
	var found string
	ast.Inspect(fn.Body, func(n ast.Node) bool {
		ifs, ok := n.(*ast.IfStmt)
		if !ok || !(ifs.Body.Pos() <= pos && pos < ifs.Body.End()) {
			return true
		}
		for _, a := range splitCond(ifs.Cond, true) {
			if x, isNil, ok := nilTest(a); ok && !isNil {
				if v, _ := p.FieldSel(fn, x); v != nil && !assigned[v] {
					found = v.Name()
				}
			}
		}
		return true
	})
	return found != "", found
}

// indexKeys: every insertion into an entry map is keyed consistently with the inserted entry — by the entry's own
// hash, by the key under which the entry was just looked up in another map, or (predecessor index) by a link of
// that very entry. Using the hash, key or link of a different variable files the entry where no lookup finds it.
func indexKeys(c *Ctx, r *Report, rule string) {
	p := c.P
	n := 0
	for _, fn := range p.Fns {
		if fn.Orig != nil || !p.firstParty(fn.Pkg.Types) || strings.HasSuffix(fn.Pkg.PkgPath, "/test") || strings.Contains(fn.Pkg.PkgPath, "/example") {
			continue
		}
		walkNoLit(fn.Body, func(nd ast.Node) bool {
			call, ok := nd.(*ast.CallExpr)
			if !ok || len(call.Args) != 2 {
				return true
			}
			se, ok := ast.Unparen(call.Fun).(*ast.SelectorExpr)
			if !ok || se.Sel.Name != "Set" {
				return true
			}
			mt := p.TypeOf(fn, se.X)
			if mt == nil {
				return true
			}
			if nt := namedOf(mt); nt == nil || (nt.Obj().Name() != "IPFSLogOrderedEntries" && nt.Obj().Name() != "OrderedMap") {
				return true
			}
			vid, ok := ast.Unparen(call.Args[1]).(*ast.Ident)
			if !ok {
				return true
			}
			vobj := p.ObjOf(fn, vid)
			n++
			okKey, how := false, ""
			// (a) own hash
			ast.Inspect(call.Args[0], func(m ast.Node) bool {
				if c2, ok := m.(*ast.CallExpr); ok {
					if s2, ok := ast.Unparen(c2.Fun).(*ast.SelectorExpr); ok && s2.Sel.Name == "GetHash" {
						if id, ok := ast.Unparen(s2.X).(*ast.Ident); ok && p.ObjOf(fn, id) == vobj {
							okKey, how = true, "the entry's own hash"
						}
					}
				}
				return true
			})
			// idents of the key expression
			var kids []types.Object
			ast.Inspect(call.Args[0], func(m ast.Node) bool {
				if id, ok := m.(*ast.Ident); ok {
					if o, isVar := p.ObjOf(fn, id).(*types.Var); isVar {
						kids = append(kids, o)
					}
				}
				return true
			})
			// a temporary holding the key (`h := next.String()`, assigned once) stands for its defining expression
			for round := 0; round < 2; round++ {
				for _, k := range append([]types.Object{}, kids...) {
					var def ast.Expr
					ndef := 0
					walkNoLit(fn.Body, func(m ast.Node) bool {
						if as, ok := m.(*ast.AssignStmt); ok && len(as.Lhs) == len(as.Rhs) {
							for i, l := range as.Lhs {
								if lid, ok := ast.Unparen(l).(*ast.Ident); ok && p.ObjOf(fn, lid) == k {
									ndef++
									def = as.Rhs[i]
								}
							}
						}
						return true
					})
					if ndef == 1 && def != nil {
						ast.Inspect(def, func(m ast.Node) bool {
							if id, ok := m.(*ast.Ident); ok {
								if o, isVar := p.ObjOf(fn, id).(*types.Var); isVar {
									kids = append(kids, o)
								}
							}
							if c2, ok := m.(*ast.CallExpr); ok {
								if s2, ok := ast.Unparen(c2.Fun).(*ast.SelectorExpr); ok && s2.Sel.Name == "GetHash" {
									if id, ok := ast.Unparen(s2.X).(*ast.Ident); ok && p.ObjOf(fn, id) == vobj {
										okKey, how = true, "the entry's own hash"
									}
								}
							}
							return true
						})
					}
				}
			}
			if !okKey {
				// (b) the key the value was looked up with; (c) a link of the value
				walkNoLit(fn.Body, func(m ast.Node) bool {
					switch x := m.(type) {
					case *ast.AssignStmt:
						if len(x.Rhs) == 1 && len(x.Lhs) >= 1 {
							if lid, ok := ast.Unparen(x.Lhs[0]).(*ast.Ident); ok && p.ObjOf(fn, lid) == vobj {
								if gc, ok := ast.Unparen(x.Rhs[0]).(*ast.CallExpr); ok && len(gc.Args) == 1 {
									if gs, ok := ast.Unparen(gc.Fun).(*ast.SelectorExpr); ok && (gs.Sel.Name == "Get" || gs.Sel.Name == "UnsafeGet") {
										if kid, ok := ast.Unparen(gc.Args[0]).(*ast.Ident); ok {
											for _, k := range kids {
												if p.ObjOf(fn, kid) == k {
													okKey, how = true, "the key the entry was looked up with"
												}
											}
										}
									}
								}
							}
						}
					case *ast.RangeStmt:
						vv, ok := x.Value.(*ast.Ident)
						if !ok || !insideNode(p, fn, call, x) {
							return true
						}
						isKey := false
						for _, k := range kids {
							if p.ObjOf(fn, vv) == k {
								isKey = true
							}
						}
						if !isKey {
							return true
						}
						switch rx := ast.Unparen(x.X).(type) {
						case *ast.CallExpr:
							if rs, ok := ast.Unparen(rx.Fun).(*ast.SelectorExpr); ok && rs.Sel.Name == "GetNext" {
								if id, ok := ast.Unparen(rs.X).(*ast.Ident); ok && p.ObjOf(fn, id) == vobj {
									okKey, how = true, "a predecessor link of the entry"
								}
							}
						case *ast.Ident:
							// the list that became the entry's Next at its creation
							lobj := p.ObjOf(fn, rx)
							walkNoLit(fn.Body, func(q ast.Node) bool {
								if kv, ok := q.(*ast.KeyValueExpr); ok {
									if kk, ok := kv.Key.(*ast.Ident); ok && kk.Name == "Next" {
										if id, ok := ast.Unparen(kv.Value).(*ast.Ident); ok && p.ObjOf(fn, id) == lobj {
											okKey, how = true, "a predecessor link handed to the entry at its creation"
										}
									}
								}
								return true
							})
						}
					}
					return true
				})
			}
			r.Check(okKey, rule, r.Key(rule, fn, "keyed-insert", types.ExprString(se.X)), call.Pos(), "the entry is filed under "+how,
				"the entry "+vid.Name+" is filed in "+types.ExprString(se.X)+" under a key ("+types.ExprString(call.Args[0])+") that is neither its own hash, nor the key it was looked up with, nor one of its predecessor links: lookups by hash miss it (or find another entry)")
			return true
		})
	}
	r.Floor(rule, "insertions into entry maps", n, 6)
}
