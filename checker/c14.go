package main

// c14.go — merging from a live log: no foreign log lock while holding one (R-C14.1), one consistent
// read of the source with heads before entries (R-C14.2).

import (
	"fmt"
	"go/ast"
	"go/token"
	"go/types"
	"strings"
)

func init() {
	register(&PropSpec{ID: "C14", Level: "other", Run: runC14,
		Explanation: "Decides two structural necessary conditions of a consistent, deadlock-free merge from a live log, on every path of Join and its callees: (R-C14.1) no call chain acquires another IPFSLog's lock while one IPFSLog lock is held (lock-order self-edge on distinct instances, interface calls resolved to first-party implementers) — otherwise A.Join(B) ∥ B.Join(A) deadlocks; (R-C14.2) the source log's mutable state is read through at most one heads accessor call and one entries accessor call, and the heads read dominates the entries read (a growing log's later index contains the closure of earlier heads; the reverse order admits a head whose entry was not captured). Not covered: that the union equals destination ∪ source-at-some-instant as sets.",
		Assumptions: []string{"the source log is append-only between the two reads (bounded merges on the source are outside this clause)"},
	})
}

func runC14(c *Ctx, r *Report) {
	p := c.P
	le := repoLockEngine(c)
	r.Doc("R-C14.1", "no acquisition of IPFSLog.lock on a different log object while an IPFSLog.lock is held (directly or through any callee)")
	r.Doc("R-C14.2", "in Join, source-state accessors of the other log: heads read exactly once, entries read at most once, and the heads read dominates the entries read")

	r.Doc("control", "engine positive/negative controls analysed on every run")
	lockControls(c, r, "control")
	join := p.FuncI("", "IPFSLog", "Join")
	// R-C14.1
	nCross := 0
	for _, e := range le.Edges {
		if e.HeldClass == "IPFSLog.lock" && e.AcqClass == "IPFSLog.lock" && e.HeldBase != e.AcqBase {
			nCross++
			r.Violate("R-C14.1", r.Key("R-C14.1", e.Fn, "foreign-lock", strings.TrimPrefix(e.Via, "call ")), e.Pos,
				fmt.Sprintf("IPFSLog.lock of %s is acquired (%s, via %s) while IPFSLog.lock of %s is held (%s): two logs merging each other concurrently each hold their own lock and wait for the other's",
					e.AcqBase, e.AcqMode, e.Via, e.HeldBase, e.HeldMode))
		}
	}
	// recursive read acquisition of one log's lock: a writer queued between the two RLocks blocks both forever
	r.Doc("R-C14.3", "no recursive acquisition of one IPFSLog lock (a merge from a log that is merely being appended to must terminate)")
	r.Doc("R-C14.4", "the head map a merge read from the source is an immutable snapshot: Merge builds a new map and never writes into its receiver or argument")
	pureMerge(c, r, "R-C14.4")
	r.Doc("R-C14.5", "a merge never blocks on a channel while it holds a log lock (a bounded worker pool whose tokens are not returned on the failure path leaves the destination locked for good)")
	importRules(c, r, "C13", []string{"R-C13.5"}, "R-C14.5", 0) // a tree without any channel operation under a lock has nothing to adopt
	r.Doc("R-C14.7", "every head stored by a merge is an entry of the result: the bounded merge recomputes its heads over the truncated list on every path (adopted from C02), and heads are the log's own entry objects (adopted from C06)")
	r.Doc("R-C14.10", "while a method of the log holds the log's lock it calls no function value it was handed (the other log's Has as a filter inside headsAndEntries nests the two logs' locks, in opposite orders for merges in opposite directions)")
	noCallerFunctionUnderTheLock(c, r, "R-C14.10")
	r.Doc("R-C14.11", "the entry index and the predecessor index, which the writers edit in place, are used — also through a local loaded from the field — only while the log's lock is held (a copy taken after the unlock runs beside the insertions and can wedge on the map's own lock)")
	liveIndexesAreReadUnderTheLock(c, r, "R-C14.11")
	r.Doc("R-C14.8", "the access-controller callbacks run under the log's write lock and never take the log's lock themselves")
	callbacksTakeNoLogLock(c, r, "R-C14.8")
	importRules(c, r, "C02", []string{"R-C02.6", "R-C02.10"}, "R-C14.7")
	importRules(c, r, "C06", []string{"R-C06.11"}, "R-C14.7")
	r.Doc("R-C14.9", "no structure that holds a lock is ever copied — no value receiver, assignment, argument, result or range value of such a type: the merge reads the live source through its methods, and a method on a copy locks the copy's lock (no exclusion; a copy taken under a writer can never be read-locked)")
	noLockCopied(c, r, "R-C14.9")
	lockCopyControls(c, r, "R-C14.9")
	nrec := 0
	for _, e := range le.Edges {
		if e.HeldClass == "IPFSLog.lock" && e.AcqClass == "IPFSLog.lock" && e.HeldBase == e.AcqBase {
			nrec++
			r.Violate("R-C14.3", r.Key("R-C14.3", e.Fn, "reacquire", strings.TrimPrefix(e.Via, "call ")), e.Pos,
				fmt.Sprintf("IPFSLog.lock of %s is acquired again (%s, via %s) while already held (%s): with a writer waiting in between (an Append on that log) the second acquisition never succeeds", e.AcqBase, e.AcqMode, e.Via, e.HeldMode))
		}
	}
	if nrec == 0 {
		r.Hold("R-C14.3", r.Key("R-C14.3", nil, "no-recursive-log-lock", ""), token.NoPos, true, "no function re-acquires an IPFSLog lock it (or its caller) already holds")
	}
	// positive instances: calls on the other log made with no log lock held
	otherParam := paramObj(join, 0)
	fl := le.flows[orig(join)]
	if fl == nil || otherParam == nil {
		infra("unresolved anchor: Join flow/param")
	}
	type acc struct {
		call *ast.CallExpr
		name string
		held bool
		fn   *Fn
	}
	var accs []acc
	for _, fn := range AllFnsUnder(join) {
		f2 := le.flows[orig(fn)]
		if f2 == nil {
			continue
		}
		f2.Visit(func(_ *cfgBlk, n ast.Node, before Facts) {
			walkNoLit(n, func(nd ast.Node) bool {
				call, ok := nd.(*ast.CallExpr)
				if !ok {
					return true
				}
				se, ok := ast.Unparen(call.Fun).(*ast.SelectorExpr)
				if !ok {
					return true
				}
				id, ok := ast.Unparen(se.X).(*ast.Ident)
				if !ok || p.ObjOf(fn, id) != otherParam {
					return true
				}
				held := false
				for k := range before {
					if strings.HasPrefix(k, "H|") && strings.Contains(k, "|IPFSLog.lock|") {
						held = true
					}
				}
				accs = append(accs, acc{call, se.Sel.Name, held, fn})
				return true
			})
		})
	}
	r.Floor("R-C14.1", "calls on the source log inside Join", len(accs), 2)
	for _, a := range accs {
		// does the callee take the source's lock?
		takes := false
		for _, cs := range c.CG.Sites(a.fn) {
			if cs.Call == a.call {
				for _, t := range cs.Targets {
					for _, q := range le.acqs[t] {
						if q.Class == "IPFSLog.lock" {
							takes = true
						}
					}
				}
			}
		}
		if !takes {
			r.Hold("R-C14.1", r.Key("R-C14.1", a.fn, "source-call", a.name), a.call.Pos(), false, "accessor "+a.name+" takes no log lock")
		} else if !a.held {
			r.Hold("R-C14.1", r.Key("R-C14.1", a.fn, "source-call", a.name), a.call.Pos(), true, "source accessor "+a.name+" (takes the source's lock) is called with no log lock held")
		}
		// held && takes → already reported from the order edges
	}

	// R-C14.2
	headsAcc := map[string]bool{"RawHeads": true, "Heads": true}
	entriesAcc := map[string]bool{"GetEntries": true, "Values": true}
	snapAcc := map[string]bool{"ToSnapshot": true}
	nHeads, nEntries, nSnap := 0, 0, 0
	var headsCall, entriesCall *ast.CallExpr
	for _, a := range accs {
		switch {
		case headsAcc[a.name]:
			nHeads++
			headsCall = a.call
		case entriesAcc[a.name]:
			nEntries++
			entriesCall = a.call
		case snapAcc[a.name]:
			nSnap++
		}
	}
	key := r.Key("R-C14.2", join, "source-reads", "")
	switch {
	case nSnap == 1 && nHeads == 0 && nEntries == 0:
		r.Hold("R-C14.2", key, join.Body.Pos(), true, "source state obtained through a single snapshot accessor")
	case nHeads == 1 && nEntries <= 1:
		ok := true
		why := "heads read once"
		if entriesCall != nil {
			// dominance: fact set at the heads call must hold at the entries call
			df := &Flow{P: p, Fn: join, Entry: Facts{}}
			df.Node = func(n ast.Node, f Facts) {
				walkNoLit(n, func(nd ast.Node) bool {
					if nd == ast.Node(headsCall) {
						f["headsRead"] = true
					}
					return true
				})
			}
			df.Run()
			ok = false
			df.Visit(func(_ *cfgBlk, n ast.Node, before Facts) {
				st := before.Clone()
				walkNoLit(n, func(nd ast.Node) bool {
					if nd == ast.Node(headsCall) {
						st["headsRead"] = true
					}
					if nd == ast.Node(entriesCall) && st["headsRead"] {
						ok = true
					}
					return true
				})
			})
			// source order inside one statement: walkNoLit is pre-order, arguments left to right
			why = fmt.Sprintf("heads read once at %s; it dominates the entries read at %s", p.Pos(headsCall.Pos()), p.Pos(entriesCall.Pos()))
			if !ok {
				why = fmt.Sprintf("entries of the source are read at %s before (or not dominated by) the heads read at %s: a head appended in between is merged without its entry", p.Pos(entriesCall.Pos()), p.Pos(headsCall.Pos()))
			}
		}
		r.Check(ok, "R-C14.2", key, join.Body.Pos(), why, why)
	default:
		r.Violate("R-C14.2", key, join.Body.Pos(), fmt.Sprintf("source log state is read through %d heads accessor calls and %d entries accessor calls: the two heads reads can observe different states (the merged head set then names entries that were never captured)", nHeads, nEntries))
	}

	// R-C14.6: "heads first, then entries" is a snapshot only while the source's index never shrinks
	r.Doc("R-C14.6", "the source state a merge works from is one the source really had: either no operation ever replaces a live log's entry index by a smaller one, or a first-party source is read through one accessor that holds its lock across the heads read and the entries read")
	entriesF, headsF := p.Field("", "IPFSLog", "Entries"), p.Field("", "IPFSLog", "heads")
	shrink := ""
	for _, fn := range p.Fns {
		if fn.Pkg.PkgPath != p.Mod || fn.Orig != nil {
			continue
		}
		walkNoLit(fn.Body, func(n ast.Node) bool {
			as, ok := n.(*ast.AssignStmt)
			if !ok {
				return true
			}
			for _, l := range as.Lhs {
				if v, _ := p.FieldSel(fn, l); v == entriesF && !nilInit(p, fn, as, l) {
					shrink = fn.Name + " at " + p.Pos(as.Pos())
				}
			}
			return true
		})
	}
	// a snapshot accessor used on the type-asserted source
	snapUsed := ""
	asserted := map[types.Object]bool{}
	walkNoLit(join.Body, func(n ast.Node) bool {
		as, ok := n.(*ast.AssignStmt)
		if !ok || len(as.Rhs) != 1 {
			return true
		}
		ta, ok := ast.Unparen(as.Rhs[0]).(*ast.TypeAssertExpr)
		if !ok || ta.Type == nil {
			return true
		}
		if id, ok := ast.Unparen(ta.X).(*ast.Ident); !ok || p.ObjOf(join, id) != otherParam {
			return true
		}
		if namedOf(p.TypeOf(join, ta.Type)) != p.Named("", "IPFSLog") {
			return true
		}
		if id, ok := as.Lhs[0].(*ast.Ident); ok {
			asserted[p.ObjOf(join, id)] = true
		}
		return true
	})
	// (looked up in the function as written: the helper-transparent view has the accessor inlined)
	joinSrc := orig(join)
	// the type-switch form: switch other := otherLog.(type) { case *IPFSLog: … }
	for _, jf := range []*Fn{join, joinSrc} {
		jf := jf
		walkNoLit(jf.Body, func(n ast.Node) bool {
			ts, ok := n.(*ast.TypeSwitchStmt)
			if !ok {
				return true
			}
			as, ok := ts.Assign.(*ast.AssignStmt)
			if !ok || len(as.Rhs) != 1 {
				return true
			}
			ta, ok := ast.Unparen(as.Rhs[0]).(*ast.TypeAssertExpr)
			if !ok {
				return true
			}
			if id, ok := ast.Unparen(ta.X).(*ast.Ident); !ok || p.ObjOf(jf, id) != paramObj(joinSrc, 0) {
				return true
			}
			for _, cl := range ts.Body.List {
				cc := cl.(*ast.CaseClause)
				if len(cc.List) == 1 && namedOf(p.TypeOf(jf, cc.List[0])) == p.Named("", "IPFSLog") {
					if o := jf.Pkg.TypesInfo.Implicits[cc]; o != nil {
						asserted[o] = true
					}
				}
			}
			return true
		})
	}
	walkNoLit(joinSrc.Body, func(n ast.Node) bool {
		as, ok := n.(*ast.AssignStmt)
		if !ok || len(as.Rhs) != 1 {
			return true
		}
		ta, ok := ast.Unparen(as.Rhs[0]).(*ast.TypeAssertExpr)
		if !ok || ta.Type == nil {
			return true
		}
		if id, ok := ast.Unparen(ta.X).(*ast.Ident); !ok || p.ObjOf(joinSrc, id) != paramObj(joinSrc, 0) {
			return true
		}
		if namedOf(p.TypeOf(joinSrc, ta.Type)) != p.Named("", "IPFSLog") {
			return true
		}
		if id, ok := as.Lhs[0].(*ast.Ident); ok {
			asserted[p.ObjOf(joinSrc, id)] = true
		}
		return true
	})
	walkNoLit(joinSrc.Body, func(n ast.Node) bool {
		call, ok := n.(*ast.CallExpr)
		if !ok {
			return true
		}
		se, ok := ast.Unparen(call.Fun).(*ast.SelectorExpr)
		if !ok {
			return true
		}
		id, ok := ast.Unparen(se.X).(*ast.Ident)
		if !ok || !asserted[p.ObjOf(joinSrc, id)] {
			return true
		}
		m := p.Callee(joinSrc, call)
		mf := p.ByObj[m]
		if mf == nil {
			return true
		}
		// both fields loaded while the receiver's lock is held, in one critical section
		lf := le.flows[orig(mf)]
		if lf == nil {
			return true
		}
		got := map[*types.Var]bool{}
		sections := 0
		lf.Visit(func(_ *cfgBlk, nd ast.Node, before Facts) {
			held := false
			for k := range before {
				if strings.HasPrefix(k, "H|") && strings.Contains(k, "|IPFSLog.lock|") {
					held = true
				}
			}
			walkNoLit(nd, func(x ast.Node) bool {
				if c2, ok := x.(*ast.CallExpr); ok {
					if cf := p.Callee(mf, c2); cf != nil && cf.Pkg() != nil && cf.Pkg().Path() == "sync" && (cf.Name() == "RLock" || cf.Name() == "Lock") {
						sections++
					}
				}
				if sx, ok := x.(*ast.SelectorExpr); ok {
					if v, _ := p.FieldSel(mf, sx); (v == entriesF || v == headsF) && held {
						got[v] = true
					}
				}
				return true
			})
		})
		if got[entriesF] && got[headsF] && sections == 1 {
			snapUsed = mf.Name + " at " + p.Pos(call.Pos())
		}
		return true
	})
	key6 := r.Key("R-C14.6", join, "source-snapshot", "")
	switch {
	case shrink == "":
		r.Hold("R-C14.6", key6, join.Body.Pos(), true, "no operation replaces a live log's entry index: reading heads, then entries, yields a superset of the state at the heads read")
	case snapUsed != "":
		r.Hold("R-C14.6", key6, join.Body.Pos(), true, "the entry index can be replaced ("+shrink+"), and a first-party source is read through "+snapUsed+", which holds the source's lock across both reads")
	default:
		r.Violate("R-C14.6", key6, join.Body.Pos(), "the source's heads and entries are read in two critical sections of the source, but a live log's entry index can be replaced by a smaller one ("+shrink+", the size-bounded merge): a bounded merge into the source between the two reads makes the destination adopt a head whose entry it never received — a head of the result that is not an entry of the result")
	}
}

// paramObj returns the i-th parameter object of a declared function.
func paramObj(fn *Fn, i int) types.Object {
	if fn.Decl == nil {
		return nil
	}
	k := 0
	for _, f := range fn.Decl.Type.Params.List {
		for _, n := range f.Names {
			if k == i {
				return fn.Pkg.TypesInfo.Defs[n]
			}
			k++
		}
		if len(f.Names) == 0 {
			k++
		}
	}
	return nil
}
