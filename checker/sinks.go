package main

// sinks.go — taint of slice/index bounds (API integers, option-struct integers, wire bytes) and the
// obligations built from E3's sinks.

import (
	"fmt"
	"go/ast"
	"go/token"
	"go/types"
	"strings"

	"golang.org/x/tools/go/ssa"
)

// intTaint: does the integer value derive from a caller-supplied integer (function parameter, field of an
// *Options struct)? Returns a description of the source.
func intTaint(v ssa.Value, seen map[ssa.Value]bool) (bool, string) {
	if seen[v] {
		return false, ""
	}
	seen[v] = true
	switch x := v.(type) {
	case *ssa.Parameter:
		if isIntType(x.Type()) {
			return true, "parameter " + x.Name() + " of " + x.Parent().Name()
		}
	case *ssa.ChangeType:
		return intTaint(x.X, seen)
	case *ssa.Convert:
		return intTaint(x.X, seen)
	case *ssa.Phi:
		for _, e := range x.Edges {
			if t, w := intTaint(e, seen); t {
				return true, w
			}
		}
	case *ssa.BinOp:
		if t, w := intTaint(x.X, seen); t {
			return true, w
		}
		return intTaint(x.Y, seen)
	case *ssa.FreeVar:
		return intTaint(resolveCell(x), seen)
	case *ssa.Alloc:
		for _, st := range cellStores(x) {
			if t, w := intTaint(st.Val, seen); t {
				return true, w
			}
		}
	case *ssa.UnOp:
		if x.Op == token.MUL { // load
			switch x.X.(type) {
			case *ssa.Alloc, *ssa.FreeVar:
				return intTaint(x.X, seen)
			}
			if fa, ok := x.X.(*ssa.FieldAddr); ok {
				if st := namedOf(fa.X.Type()); st != nil && strings.HasSuffix(st.Obj().Name(), "Options") {
					fld := st.Underlying().(*types.Struct).Field(fa.Field)
					ft := fld.Type()
					if pt, ok := ft.Underlying().(*types.Pointer); ok {
						ft = pt.Elem()
					}
					if isIntType(ft) {
						return true, "option field " + st.Obj().Name() + "." + fld.Name()
					}
				}
			}
			return intTaint(x.X, seen)
		}
		return intTaint(x.X, seen)
	case *ssa.Call:
		for _, a := range x.Call.Args {
			if isIntType(a.Type()) {
				if t, w := intTaint(a, seen); t {
					return true, w
				}
			}
		}
	}
	return false, ""
}

// sinkTaint: is any bound of the sink caller-controlled? wire=true additionally arms sinks whose indexed
// collection is a []byte/string parameter (bytes that came off the wire).
func sinkTaint(s *lenSink, wire bool) (bool, string) {
	for _, a := range s.Atoms {
		v, isLen := s.AtomValue(a)
		if v == nil {
			continue
		}
		if !isLen {
			if t, w := intTaint(v, map[ssa.Value]bool{}); t {
				return true, w
			}
		} else if wire {
			if par, ok := v.(*ssa.Parameter); ok {
				return true, "length of wire-derived parameter " + par.Name()
			}
		}
	}
	if wire {
		var coll ssa.Value
		switch x := s.Instr.(type) {
		case *ssa.Slice:
			coll = x.X
		case *ssa.IndexAddr:
			coll = x.X
		case *ssa.Index:
			coll = x.X
		}
		if par, ok := coll.(*ssa.Parameter); ok {
			return true, "wire-derived parameter " + par.Name()
		}
		// a computed index into a fixed-size array inside a function that is fed wire bytes: the loop or
		// arithmetic that produces the index is bounded by the wire data, the array is not
		if coll != nil {
			t := coll.Type()
			if pt, ok := t.Underlying().(*types.Pointer); ok {
				t = pt.Elem()
			}
			if _, isArr := t.Underlying().(*types.Array); isArr {
				var ixv ssa.Value
				switch x := s.Instr.(type) {
				case *ssa.IndexAddr:
					ixv = x.Index
				case *ssa.Index:
					ixv = x.Index
				}
				if _, isConst := ixv.(*ssa.Const); ixv != nil && !isConst {
					for _, par := range s.Fn.Params {
						switch pt := par.Type().Underlying().(type) {
						case *types.Slice:
							return true, "fixed-size array indexed while walking wire-derived parameter " + par.Name()
						case *types.Basic:
							if pt.Info()&types.IsString != 0 {
								return true, "fixed-size array indexed while walking wire-derived parameter " + par.Name()
							}
						}
					}
				}
			}
		}
	}
	return false, ""
}

// sinkObligations evaluates E3 on fn (and its literals) and emits one obligation per armed sink.
func sinkObligations(c *Ctx, r *Report, rule string, fn *Fn, wire bool) (armed, listed int) {
	for _, f := range AllFnsUnder(fn) {
		sf := c.P.SSAFunc(f)
		if sf == nil {
			continue
		}
		for _, s := range LenSinks(c.P, sf) {
			t, why := sinkTaint(s, wire)
			pos := s.Instr.Pos()
			if !pos.IsValid() {
				pos = nearestPos(s.Instr)
			}
			if !t {
				listed++
				st := "proved"
				if !s.Proved {
					st = "not proved (not armed: no caller-controlled bound)"
				}
				r.List("%s sink in %s at %s: %s — %s", s.Kind, f.Name, c.P.Pos(pos), s.Desc, st)
				continue
			}
			armed++
			key := r.Key(rule, f, s.Kind, why)
			if s.Proved {
				r.Hold(rule, key, pos, true, fmt.Sprintf("%s in range for all values (%s)", s.Desc, why), s.Facts...)
			} else {
				r.Violate(rule, key, pos, fmt.Sprintf("%s: cannot show %s — bound is caller-controlled (%s) and no dominating check relates it to the length: out-of-range panic for some input", s.Desc, s.Failed, why), s.Facts...)
			}
		}
	}
	return
}

func nearestPos(ins ssa.Instruction) token.Pos {
	b := ins.Block()
	best := token.NoPos
	for _, i := range b.Instrs {
		if i.Pos().IsValid() {
			best = i.Pos()
		}
		if i == ins && best.IsValid() {
			return best
		}
	}
	if best.IsValid() {
		return best
	}
	return ins.Parent().Pos()
}

// errResultNil: the return statement's error result is the literal nil.
func errResultIsNil(p *Prog, fn *Fn, ret *ast.ReturnStmt) (isNil bool, hasErr bool) {
	if fn.Type.Results == nil {
		return false, false
	}
	// index of the error result
	idx := -1
	k := 0
	for _, f := range fn.Type.Results.List {
		n := len(f.Names)
		if n == 0 {
			n = 1
		}
		if isErrorType(fn.Pkg.TypesInfo.TypeOf(f.Type)) {
			idx = k + n - 1
		}
		k += n
	}
	if idx < 0 {
		return false, false
	}
	if len(ret.Results) != k {
		return false, true // naked return or call forwarding: unknown
	}
	return isNilIdent(ret.Results[idx]), true
}

func isErrorType(t types.Type) bool {
	return t != nil && types.Identical(t, types.Universe.Lookup("error").Type())
}

// lenControls runs E3 on the control package: it must prove the Good* sinks and fail exactly the Bad* ones.
func lenControls(c *Ctx, r *Report, rule string) {
	if c.Ctl == nil {
		return
	}
	p := c.Ctl
	var diff []string
	n := 0
	for _, name := range []string{"GoodClamp", "BadNoClamp", "GoodMinHelper", "GoodFirstByte", "BadFirstByte", "GoodDisjunction", "GoodSwitch", "GoodCell"} {
		fn := p.Func("", "", name)
		for _, s := range LenSinks(p, p.SSAFunc(fn)) {
			t, _ := sinkTaint(s, true)
			if !t {
				continue
			}
			n++
			wantProved := strings.HasPrefix(name, "Good")
			if s.Proved != wantProved {
				diff = append(diff, fmt.Sprintf("%s: %s proved=%v (%s)", name, s.Desc, s.Proved, s.Failed))
			}
		}
	}
	r.Check(len(diff) == 0 && n >= 10, rule, r.Key(rule, nil, "engine-control", "E3-lenprove"), token.NoPos,
		fmt.Sprintf("length prover decided all %d control sinks as expected (proves the guarded ones, fails the unguarded ones)", n),
		fmt.Sprintf("length prover control mismatch (checker defect): n=%d %v", n, diff))
}
