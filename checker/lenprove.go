package main

// lenprove.go — E3: proves slice/index bounds from dominating branch facts over go/ssa, with linear
// arithmetic decided by Fourier–Motzkin elimination (in-process, like the compiler's prove pass).

import (
	"fmt"
	"go/constant"
	"go/token"
	"go/types"
	"sort"
	"strings"

	"golang.org/x/tools/go/ssa"
)

type lin struct {
	c map[string]int64
	k int64
}

func linConst(k int64) lin { return lin{c: map[string]int64{}, k: k} }
func linAtom(a string) lin { return lin{c: map[string]int64{a: 1}} }

func (a lin) add(b lin, sb int64) lin {
	r := lin{c: map[string]int64{}, k: a.k + sb*b.k}
	for x, v := range a.c {
		r.c[x] = v
	}
	for x, v := range b.c {
		r.c[x] += sb * v
		if r.c[x] == 0 {
			delete(r.c, x)
		}
	}
	return r
}

func (a lin) scale(s int64) lin {
	r := lin{c: map[string]int64{}, k: a.k * s}
	for x, v := range a.c {
		if v*s != 0 {
			r.c[x] = v * s
		}
	}
	return r
}

func (a lin) String() string {
	var ks []string
	for x := range a.c {
		ks = append(ks, x)
	}
	sort.Strings(ks)
	var sb strings.Builder
	for _, x := range ks {
		v := a.c[x]
		switch {
		case v == 1:
			sb.WriteString("+" + x)
		case v == -1:
			sb.WriteString("-" + x)
		default:
			fmt.Fprintf(&sb, "%+d*%s", v, x)
		}
	}
	if a.k != 0 || len(ks) == 0 {
		fmt.Fprintf(&sb, "%+d", a.k)
	}
	return strings.TrimPrefix(sb.String(), "+")
}

// fact: l <= 0 (le), l == 0 (eq), l != 0 (ne)
type lfact struct {
	l  lin
	op string
}

func (f lfact) String() string {
	switch f.op {
	case "eq":
		return f.l.String() + " == 0"
	case "ne":
		return f.l.String() + " != 0"
	}
	return f.l.String() + " <= 0"
}

type LenProver struct {
	p        *Prog
	fn       *ssa.Function
	atomVal  map[string]ssa.Value // atom name -> value (for len atoms: the collection)
	atomLen  map[string]bool
	names    map[ssa.Value]string
	alts     map[string][][]lfact // atom -> alternative fact sets (phi edges, helper summaries)
	defs     []lfact              // definitional facts discovered while building terms
	visiting map[ssa.Value]bool
	depth    int
	memo     map[*ssa.BasicBlock][][]lfact
	memoVia  map[*ssa.BasicBlock][]int
	memoHist map[*ssa.BasicBlock][]map[*ssa.BasicBlock]int // per disjunct: which predecessor the path took into blocks that merge booleans
	dbg      map[ssa.Value]string
	stored   map[*types.Var]bool
	noEntry  bool
	useEntry bool
}

func NewLenProver(p *Prog, fn *ssa.Function) *LenProver {
	return &LenProver{p: p, fn: fn, atomVal: map[string]ssa.Value{}, atomLen: map[string]bool{}, names: map[ssa.Value]string{}, alts: map[string][][]lfact{}, visiting: map[ssa.Value]bool{}, memo: map[*ssa.BasicBlock][][]lfact{}, memoVia: map[*ssa.BasicBlock][]int{}, memoHist: map[*ssa.BasicBlock][]map[*ssa.BasicBlock]int{}}
}

func (lp *LenProver) name(v ssa.Value) string {
	if n, ok := lp.names[v]; ok {
		return n
	}
	n := v.Name()
	if lp.dbg == nil {
		lp.dbg = map[ssa.Value]string{}
		if f := v.Parent(); f != nil {
			for _, b := range f.Blocks {
				for _, ins := range b.Instrs {
					if d, ok := ins.(*ssa.DebugRef); ok && !d.IsAddr {
						if _, seen := lp.dbg[d.X]; !seen {
							lp.dbg[d.X] = types.ExprString(d.Expr)
						}
					}
				}
			}
		}
	}
	if e, ok := lp.dbg[v]; ok && v.Parent() == lp.fn {
		n = e + "·" + n
	}
	if c := lp.canonLoad(v); c != "" {
		n = c
	}
	if par, ok := v.(*ssa.Parameter); ok {
		n = par.Name()
	}
	if fv, ok := v.(*ssa.FreeVar); ok {
		n = fv.Name()
	}
	n = fmt.Sprintf("%s@%s", n, shortSSAFn(v.Parent()))
	lp.names[v] = n
	return n
}

func shortSSAFn(f *ssa.Function) string {
	if f == nil {
		return "pkg"
	}
	return f.Name()
}

func isIntType(t types.Type) bool {
	b, ok := t.Underlying().(*types.Basic)
	return ok && b.Info()&types.IsInteger != 0
}

// strip conversions that do not change the mathematical value for our purposes.
func (lp *LenProver) strip(v ssa.Value) ssa.Value {
	for {
		switch x := v.(type) {
		case *ssa.ChangeType:
			v = x.X
		case *ssa.Convert:
			if isIntType(x.Type()) && isIntType(x.X.Type()) {
				v = x.X
			} else {
				return v
			}
		default:
			return v
		}
	}
}

// lenAtom returns the linear term for len(coll).
func (lp *LenProver) lenTerm(coll ssa.Value) lin {
	coll = lp.strip(coll)
	switch x := coll.(type) {
	case *ssa.Slice:
		// len(x[l:h]) = h - l
		var hi lin
		if x.High != nil {
			hi = lp.term(x.High)
		} else {
			hi = lp.lenTerm(x.X)
		}
		lo := linConst(0)
		if x.Low != nil {
			lo = lp.term(x.Low)
		}
		return hi.add(lo, -1)
	case *ssa.MakeSlice:
		return lp.term(x.Len)
	case *ssa.Const:
		if x.Value != nil && x.Value.Kind() == constant.String {
			return linConst(int64(len(constant.StringVal(x.Value))))
		}
		if x.IsNil() {
			return linConst(0)
		}
	case *ssa.Call:
		if b, ok := x.Call.Value.(*ssa.Builtin); ok && b.Name() == "append" && len(x.Call.Args) == 2 {
			if isLenType(x.Call.Args[1].Type()) {
				return lp.lenTerm(x.Call.Args[0]).add(lp.lenTerm(x.Call.Args[1]), 1)
			}
		}
		if callee := x.Call.StaticCallee(); callee != nil && lp.p.firstParty(calleePkg(callee)) {
			n := "len(" + lp.name(coll) + ")"
			if _, seen := lp.atomVal[n]; !seen {
				lp.atomVal[n] = coll
				lp.atomLen[n] = true
				lp.defs = append(lp.defs, lfact{linAtom(n).scale(-1), "le"})
				if alts := lp.summary(callee, x.Call.Args, linAtom(n), true); alts != nil {
					lp.alts[n] = alts
				}
			}
			return linAtom(n)
		}
	}
	// arrays and pointers to arrays have constant length
	t := coll.Type()
	if pt, ok := t.Underlying().(*types.Pointer); ok {
		t = pt.Elem()
	}
	if at, ok := t.Underlying().(*types.Array); ok {
		return linConst(at.Len())
	}
	n := "len(" + lp.name(coll) + ")"
	if _, ok := lp.atomVal[n]; !ok {
		lp.atomVal[n] = coll
		lp.atomLen[n] = true
		lp.defs = append(lp.defs, lfact{linAtom(n).scale(-1), "le"}) // len >= 0
		if phi, ok := coll.(*ssa.Phi); ok {
			lp.phiAlts(n, phi, true)
		}
	}
	return linAtom(n)
}

func (lp *LenProver) term(v ssa.Value) lin {
	v = lp.strip(v)
	switch x := v.(type) {
	case *ssa.Const:
		if x.Value != nil && x.Value.Kind() == constant.Int {
			if i, ok := constant.Int64Val(x.Value); ok {
				return linConst(i)
			}
		}
	case *ssa.BinOp:
		switch x.Op {
		case token.ADD:
			return lp.term(x.X).add(lp.term(x.Y), 1)
		case token.SUB:
			return lp.term(x.X).add(lp.term(x.Y), -1)
		case token.MUL:
			a, b := lp.term(x.X), lp.term(x.Y)
			if len(a.c) == 0 {
				return b.scale(a.k)
			}
			if len(b.c) == 0 {
				return a.scale(b.k)
			}
		}
	case *ssa.UnOp:
		if x.Op == token.SUB {
			return lp.term(x.X).scale(-1)
		}
	case *ssa.Call:
		if b, ok := x.Call.Value.(*ssa.Builtin); ok {
			switch b.Name() {
			case "len":
				return lp.lenTerm(x.Call.Args[0])
			case "min", "max":
				if len(x.Call.Args) == 2 {
					n := lp.name(v)
					if _, seen := lp.atomVal[n]; !seen {
						lp.atomVal[n] = v
						a, bb := lp.term(x.Call.Args[0]), lp.term(x.Call.Args[1])
						r := linAtom(n)
						if b.Name() == "min" {
							lp.alts[n] = [][]lfact{{{r.add(a, -1), "eq"}, {a.add(bb, -1), "le"}}, {{r.add(bb, -1), "eq"}, {bb.add(a, -1), "le"}}}
						} else {
							lp.alts[n] = [][]lfact{{{r.add(a, -1), "eq"}, {bb.add(a, -1), "le"}}, {{r.add(bb, -1), "eq"}, {a.add(bb, -1), "le"}}}
						}
					}
					return linAtom(n)
				}
			}
		}
		if callee := x.Call.StaticCallee(); callee != nil && lp.p.firstParty(calleePkg(callee)) && isIntType(v.Type()) {
			n := lp.name(v)
			if _, seen := lp.atomVal[n]; !seen {
				lp.atomVal[n] = v
				if alts := lp.summary(callee, x.Call.Args, linAtom(n), false); alts != nil {
					lp.alts[n] = alts
				}
			}
			return linAtom(n)
		}
	}
	n := lp.name(v)
	if _, ok := lp.atomVal[n]; !ok {
		lp.atomVal[n] = v
		if phi, ok := v.(*ssa.Phi); ok && isIntType(phi.Type()) {
			lp.phiAlts(n, phi, false)
		}
	}
	return linAtom(n)
}

func calleePkg(f *ssa.Function) *types.Package {
	if f.Pkg != nil {
		return f.Pkg.Pkg
	}
	if f.Object() != nil {
		return f.Object().Pkg()
	}
	return nil
}

// isLoopHeaderPhi: some incoming edge comes from a block dominated by the phi's block.
func isLoopHeaderPhi(phi *ssa.Phi) bool {
	b := phi.Block()
	for _, pr := range b.Preds {
		if b.Dominates(pr) {
			return true
		}
	}
	return false
}

func (lp *LenProver) phiAlts(atom string, phi *ssa.Phi, isLen bool) {
	if lp.depth > 3 {
		return
	}
	lp.depth++
	defer func() { lp.depth-- }()
	b := phi.Block()
	if isLoopHeaderPhi(phi) {
		if isLen {
			return
		}
		// induction lower/upper bound: phi = [c, phi + k]
		var base *lin
		mono := int64(0)
		ok := true
		for _, e := range phi.Edges {
			e = lp.strip(e)
			if c, isC := e.(*ssa.Const); isC && c.Value != nil && c.Value.Kind() == constant.Int {
				if i, ok2 := constant.Int64Val(c.Value); ok2 && base == nil {
					l := linConst(i)
					base = &l
					continue
				}
			}
			if bo, isB := e.(*ssa.BinOp); isB && (bo.Op == token.ADD || bo.Op == token.SUB) && lp.strip(bo.X) == ssa.Value(phi) {
				if c, isC := lp.strip(bo.Y).(*ssa.Const); isC && c.Value != nil && c.Value.Kind() == constant.Int {
					i, _ := constant.Int64Val(c.Value)
					if bo.Op == token.SUB {
						i = -i
					}
					if mono == 0 || (mono > 0) == (i > 0) {
						mono = i
						continue
					}
				}
			}
			ok = false
		}
		if ok && base != nil && mono != 0 {
			if mono > 0 {
				lp.defs = append(lp.defs, lfact{base.add(linAtom(atom), -1), "le"}) // base <= phi
			} else {
				lp.defs = append(lp.defs, lfact{linAtom(atom).add(*base, -1), "le"}) // phi <= base
			}
		}
		return
	}
	_ = b
}

// summary: alternatives describing the result (an integer, or the length of a slice result when
// resIsLen) of a small first-party helper in terms of the caller's argument terms.
func (lp *LenProver) summary(callee *ssa.Function, args []ssa.Value, res lin, resIsLen bool) [][]lfact {
	if len(callee.Blocks) == 0 || len(callee.Blocks) > 16 || lp.depth > 2 {
		return nil
	}
	lp.depth++
	defer func() { lp.depth-- }()
	sub := NewLenProver(lp.p, callee)
	sub.depth = lp.depth
	// map callee atoms (int params, len of slice params) to caller terms
	paramTerm := map[string]lin{}
	for i, par := range callee.Params {
		if i >= len(args) {
			continue
		}
		if isIntType(par.Type()) {
			paramTerm[sub.name(par)] = lp.term(args[i])
		} else if isLenType(par.Type()) {
			paramTerm["len("+sub.name(par)+")"] = lp.lenTerm(args[i])
		} else if pt, ok := par.Type().Underlying().(*types.Pointer); ok && isIntType(pt.Elem()) {
			// a pointer to an integer handed down: what the callee reads through it is the caller's canonical
			// load through the same access path
			if path := lp.canonAddr(args[i]); path != "" {
				paramTerm[fmt.Sprintf("*%s@%s", sub.canonAddr(par), shortSSAFn(callee))] = linAtom(fmt.Sprintf("*%s@%s", path, shortSSAFn(lp.fn)))
			}
		}
	}
	subst := func(l lin) (lin, bool) {
		out := linConst(l.k)
		for a, c := range l.c {
			t, ok := paramTerm[a]
			if !ok {
				return lin{}, false
			}
			out = out.add(t, c)
		}
		return out, true
	}
	substFacts := func(fs []lfact) []lfact {
		var out []lfact
		for _, f := range fs {
			if l, ok := subst(f.l); ok {
				out = append(out, lfact{l, f.op})
			}
		}
		return out
	}
	var alts [][]lfact
	for _, b := range callee.Blocks {
		ret, ok := b.Instrs[len(b.Instrs)-1].(*ssa.Return)
		if !ok {
			continue
		}
		if len(ret.Results) != 1 {
			return nil
		}
		var raw lin
		if resIsLen {
			raw = sub.lenTerm(ret.Results[0])
		} else {
			raw = sub.term(ret.Results[0])
		}
		// nested helper results inside the callee: expand their alternatives (one level)
		expansions := [][]lfact{{}}
		rawTerms := []lin{raw}
		for a := range raw.c {
			if inner, ok := sub.alts[a]; ok {
				var ne [][]lfact
				for _, e := range expansions {
					for _, ia := range inner {
						ne = append(ne, append(append([]lfact{}, e...), ia...))
					}
				}
				expansions = ne
			}
		}
		_ = rawTerms
		for _, d := range sub.pathFacts(b) {
			for _, ex := range expansions {
				// eliminate non-parameter atoms of the result through the equalities in ex when possible
				rt := raw
				facts := append(append([]lfact{}, d...), ex...)
				facts = append(facts, sub.defs...)
				rt, facts = eliminateLocals(rt, facts, paramTerm)
				r2, ok := subst(rt)
				if !ok {
					// result not expressible: keep only an unconstrained alternative
					alts = append(alts, substFacts(facts))
					continue
				}
				fs := []lfact{{res.add(r2, -1), "eq"}}
				fs = append(fs, substFacts(facts)...)
				alts = append(alts, fs)
			}
		}
	}
	if len(alts) == 0 || len(alts) > 12 {
		return nil
	}
	return alts
}

// eliminateLocals rewrites t (and the facts) by substituting atoms that are not caller-expressible
// using equalities `atom == expr` found among the facts.
func eliminateLocals(t lin, facts []lfact, ok map[string]lin) (lin, []lfact) {
	for iter := 0; iter < 6; iter++ {
		changed := false
		for a := range t.c {
			if _, expressible := ok[a]; expressible {
				continue
			}
			// find equality mentioning a with coefficient ±1
			for _, f := range facts {
				if f.op != "eq" {
					continue
				}
				ca := f.l.c[a]
				if ca != 1 && ca != -1 {
					continue
				}
				// a = -(rest)/ca
				rest := f.l.add(linAtom(a), -ca) // remove a
				repl := rest.scale(-ca)
				coef := t.c[a]
				t = t.add(linAtom(a), -coef).add(repl, coef)
				changed = true
				break
			}
			if changed {
				break
			}
		}
		if !changed {
			break
		}
	}
	return t, facts
}

// condFacts translates an SSA boolean into linear facts, given its truth value.
func (lp *LenProver) condFacts(cond ssa.Value, truth bool) []lfact {
	switch x := cond.(type) {
	case *ssa.Call:
		return lp.boolHelperFacts(x, truth)
	case *ssa.UnOp:
		if x.Op == token.NOT {
			return lp.condFacts(x.X, !truth)
		}
	case *ssa.BinOp:
		if !isIntType(x.X.Type()) || !isIntType(x.Y.Type()) {
			return nil
		}
		a, b := lp.term(x.X), lp.term(x.Y)
		d := a.add(b, -1) // a - b
		op := x.Op
		if !truth {
			switch op {
			case token.LSS:
				op = token.GEQ
			case token.LEQ:
				op = token.GTR
			case token.GTR:
				op = token.LEQ
			case token.GEQ:
				op = token.LSS
			case token.EQL:
				op = token.NEQ
			case token.NEQ:
				op = token.EQL
			}
		}
		switch op {
		case token.LSS: // a - b <= -1
			return []lfact{{d.add(linConst(1), 1), "le"}}
		case token.LEQ:
			return []lfact{{d, "le"}}
		case token.GTR: // b - a + 1 <= 0
			return []lfact{{d.scale(-1).add(linConst(1), 1), "le"}}
		case token.GEQ:
			return []lfact{{d.scale(-1), "le"}}
		case token.EQL:
			return []lfact{{d, "eq"}}
		case token.NEQ:
			return []lfact{{d, "ne"}}
		}
	}
	return nil
}

// domFacts: branch conditions known when control is at the end of block b (and, if to != nil, on the edge b->to).
func (lp *LenProver) domFacts(b *ssa.BasicBlock, to *ssa.BasicBlock) []lfact {
	var out []lfact
	addEdge := func(from, succ *ssa.BasicBlock) {
		if len(from.Instrs) == 0 {
			return
		}
		iff, ok := from.Instrs[len(from.Instrs)-1].(*ssa.If)
		if !ok || len(from.Succs) != 2 || from.Succs[0] == from.Succs[1] {
			return
		}
		if from.Succs[0] == succ {
			out = append(out, lp.condFacts(iff.Cond, true)...)
		} else if from.Succs[1] == succ {
			out = append(out, lp.condFacts(iff.Cond, false)...)
		}
	}
	if to != nil {
		addEdge(b, to)
	}
	// walk up the dominator tree: for d = idom chain, if the edge d->s is the only way into the subtree containing b
	cur := b
	for cur != nil {
		d := cur.Idom()
		if d == nil {
			break
		}
		// cur is immediately dominated by d; if cur has exactly one predecessor and it is d, the edge condition holds
		if len(cur.Preds) == 1 && cur.Preds[0] == d {
			addEdge(d, cur)
		} else {
			// all predecessors of cur that are not dominated by cur (non-back edges) must agree… handle the
			// common diamond-free case: every non-back-edge predecessor is d itself via the same successor slot
			same := true
			for _, pr := range cur.Preds {
				if cur.Dominates(pr) {
					continue
				}
				if pr != d {
					same = false
				}
			}
			if same {
				addEdge(d, cur)
			}
		}
		cur = d
	}
	return out
}

// ---- Fourier–Motzkin --------------------------------------------------------------------

type ineq struct { // sum c*x + k <= 0
	c map[string]int64
	k int64
}

func gcd(a, b int64) int64 {
	if a < 0 {
		a = -a
	}
	if b < 0 {
		b = -b
	}
	for b != 0 {
		a, b = b, a%b
	}
	return a
}

func normIneq(q ineq) ineq {
	g := int64(0)
	for _, v := range q.c {
		g = gcd(g, v)
	}
	if g > 1 {
		for x := range q.c {
			q.c[x] /= g
		}
		// integer tightening: sum c x <= -k  =>  sum (c/g) x <= floor(-k/g)
		nk := -q.k
		fl := nk / g
		if nk%g != 0 && nk < 0 {
			fl--
		}
		q.k = -fl
	}
	return q
}

// infeasible reports whether the conjunction of inequalities has no rational (hence no integer) solution.
func infeasible(qs []ineq) bool {
	for round := 0; round < 64; round++ {
		// constant contradictions
		vars := map[string]int{}
		for _, q := range qs {
			if len(q.c) == 0 {
				if q.k > 0 {
					return true
				}
				continue
			}
			for x := range q.c {
				vars[x]++
			}
		}
		if len(vars) == 0 {
			return false
		}
		// pick variable minimising pos*neg
		best, bestCost := "", -1
		var names []string
		for x := range vars {
			names = append(names, x)
		}
		sort.Strings(names)
		for _, x := range names {
			pos, neg := 0, 0
			for _, q := range qs {
				if q.c[x] > 0 {
					pos++
				} else if q.c[x] < 0 {
					neg++
				}
			}
			cost := pos * neg
			if bestCost < 0 || cost < bestCost {
				best, bestCost = x, cost
			}
		}
		var pos, neg, rest []ineq
		for _, q := range qs {
			switch {
			case q.c[best] > 0:
				pos = append(pos, q)
			case q.c[best] < 0:
				neg = append(neg, q)
			default:
				if len(q.c) > 0 || q.k > 0 {
					rest = append(rest, q)
				}
			}
		}
		for _, a := range pos {
			for _, b := range neg {
				ca, cb := a.c[best], -b.c[best]
				n := ineq{c: map[string]int64{}, k: a.k*cb + b.k*ca}
				for x, v := range a.c {
					n.c[x] += v * cb
				}
				for x, v := range b.c {
					n.c[x] += v * ca
				}
				for x, v := range n.c {
					if v == 0 {
						delete(n.c, x)
					}
				}
				rest = append(rest, normIneq(n))
			}
		}
		if len(rest) > 400 {
			return false
		}
		qs = rest
	}
	return false
}

func toIneqs(fs []lfact) (les []ineq, nes []lin) {
	for _, f := range fs {
		switch f.op {
		case "le":
			les = append(les, ineq{c: cloneMap(f.l.c), k: f.l.k})
		case "eq":
			les = append(les, ineq{c: cloneMap(f.l.c), k: f.l.k})
			n := f.l.scale(-1)
			les = append(les, ineq{c: n.c, k: n.k})
		case "ne":
			nes = append(nes, f.l)
		}
	}
	return
}

func cloneMap(m map[string]int64) map[string]int64 {
	r := map[string]int64{}
	for k, v := range m {
		r[k] = v
	}
	return r
}

// entails: facts ⊨ goal (goal is l <= 0).
func entails(fs []lfact, goal lin) bool {
	les, nes := toIneqs(fs)
	ng := goal.scale(-1).add(linConst(1), 1) // -goal + 1 <= 0  i.e. goal >= 1
	base := append(append([]ineq{}, les...), ineq{c: ng.c, k: ng.k})
	if len(nes) > 4 {
		nes = nes[:4]
	}
	// case split on disequalities: every combination must be infeasible
	n := len(nes)
	for mask := 0; mask < 1<<n; mask++ {
		qs := append([]ineq{}, base...)
		for i, l := range nes {
			if mask&(1<<i) == 0 { // l <= -1
				t := l.add(linConst(1), 1)
				qs = append(qs, ineq{c: cloneMap(t.c), k: t.k})
			} else { // l >= 1
				t := l.scale(-1).add(linConst(1), 1)
				qs = append(qs, ineq{c: t.c, k: t.k})
			}
		}
		cp := make([]ineq, len(qs))
		for i, q := range qs {
			cp[i] = ineq{c: cloneMap(q.c), k: q.k}
		}
		if !infeasible(cp) {
			return false
		}
	}
	return true
}

// Prove: at instruction site (in block b), do the dominating facts entail every goal?
// Returns ok, the facts used and the first failing goal.
// edgeFacts: condition known on the edge from->to, plus phi equalities of `to` for that edge.
func (lp *LenProver) edgeFacts(from, to *ssa.BasicBlock, predIdx int) []lfact {
	fs, _ := lp.edgeFactsVia(from, to, predIdx, -1, nil)
	return fs
}

// edgeFactsVia: like edgeFacts; `via` is the index of the predecessor through which the path entered
// `from` (-1 unknown). A branch condition that is a boolean phi of `from` (a && / || evaluated as a
// value, e.g. in a switch case) is resolved through that predecessor; feasible=false when the resolved
// constant contradicts the branch taken.
func (lp *LenProver) edgeFactsVia(from, to *ssa.BasicBlock, predIdx int, via int, hist map[*ssa.BasicBlock]int) (out []lfact, feasible bool) {
	feasible = true
	if len(from.Instrs) > 0 {
		if iff, ok := from.Instrs[len(from.Instrs)-1].(*ssa.If); ok && len(from.Succs) == 2 && from.Succs[0] != from.Succs[1] {
			truth := from.Succs[0] == to
			if truth || from.Succs[1] == to {
				cond := iff.Cond
				neg := false
				for {
					if u, isU := cond.(*ssa.UnOp); isU && u.Op == token.NOT {
						cond, neg = u.X, !neg
						continue
					}
					break
				}
				// a merged boolean (short-circuit && / || in an expression context): its value on this path is
				// the edge of the predecessor the path came through — also for the nested merges it refers to
				for depth := 0; depth < 6; depth++ {
					phi, isPhi := cond.(*ssa.Phi)
					if !isPhi {
						break
					}
					idx := -1
					if phi.Block() == from {
						idx = via
					} else if h, ok := hist[phi.Block()]; ok {
						idx = h
					}
					if idx >= 0 && idx < len(phi.Edges) {
						cond = phi.Edges[idx]
						for {
							if u, isU := cond.(*ssa.UnOp); isU && u.Op == token.NOT {
								cond, neg = u.X, !neg
								continue
							}
							break
						}
					} else {
						cond = nil
						break
					}
				}
				want := truth != neg
				switch c := cond.(type) {
				case nil:
				case *ssa.Const:
					if c.Value != nil && c.Value.Kind() == constant.Bool && constant.BoolVal(c.Value) != want {
						feasible = false
					}
				default:
					out = append(out, lp.condFacts(cond, want)...)
				}
			}
		}
	}
	for _, ins := range to.Instrs {
		phi, ok := ins.(*ssa.Phi)
		if !ok {
			break
		}
		if isLoopHeaderPhi(phi) || predIdx >= len(phi.Edges) {
			continue
		}
		e := phi.Edges[predIdx]
		switch {
		case isIntType(phi.Type()):
			out = append(out, lfact{lp.term(phi).add(lp.term(e), -1), "eq"})
		case isLenType(phi.Type()):
			out = append(out, lfact{lp.lenTerm(phi).add(lp.lenTerm(e), -1), "eq"})
		}
	}
	return out, feasible
}

func isLenType(t types.Type) bool {
	switch u := t.Underlying().(type) {
	case *types.Slice:
		return true
	case *types.Basic:
		return u.Info()&types.IsString != 0
	}
	return false
}

// pathFacts: disjunction (over acyclic paths, merged when equal) of the branch facts known at entry of b.
func (lp *LenProver) pathFacts(b *ssa.BasicBlock) [][]lfact {
	if r, ok := lp.memo[b]; ok {
		return r
	}
	lp.memo[b] = nil // cycle guard (back edges are skipped anyway)
	if len(b.Preds) == 0 {
		r := [][]lfact{{}}
		if b != lp.fn.Blocks[0] {
			r = nil // unreachable (e.g. recover block)
		} else if ef := lp.entryFacts(); ef != nil {
			r = ef
		}
		lp.memo[b] = r
		lp.memoVia[b] = make([]int, len(r))
		lp.memoHist[b] = make([]map[*ssa.BasicBlock]int, len(r))
		for i := range lp.memoVia[b] {
			lp.memoVia[b][i] = -1
		}
		return r
	}
	var out [][]lfact
	var vias []int
	var hists []map[*ssa.BasicBlock]int
	seen := map[string]bool{}
	for i, pr := range b.Preds {
		if b.Dominates(pr) {
			continue // back edge: facts about values defined outside the loop still hold; inside values are new
		}
		prPaths := lp.pathFacts(pr)
		prVia := lp.memoVia[pr]
		prHist := lp.memoHist[pr]
		for di, d := range prPaths {
			via := -1
			if di < len(prVia) {
				via = prVia[di]
			}
			var hist map[*ssa.BasicBlock]int
			if di < len(prHist) {
				hist = prHist[di]
			}
			ef, feasible := lp.edgeFactsVia(pr, b, i, via, hist)
			if !feasible {
				continue
			}
			nh := hist
			if hasBoolPhi(b) {
				nh = make(map[*ssa.BasicBlock]int, len(hist)+1)
				for k, v := range hist {
					nh[k] = v
				}
				nh[b] = i
			}
			nd := append(lp.applyStores(append([]lfact{}, d...), pr, nil), ef...)
			var ks []string
			for _, f := range nd {
				ks = append(ks, f.String())
			}
			sort.Strings(ks)
			k := strings.Join(ks, ";")
			k = fmt.Sprintf("%d|%s|%s", i, k, histKey(nh))
			if !seen[k] {
				seen[k] = true
				out = append(out, nd)
				vias = append(vias, i)
				hists = append(hists, nh)
			}
		}
	}
	if len(out) > 32 {
		// collapse to the facts common to all disjuncts
		count := map[string]int{}
		byStr := map[string]lfact{}
		for _, d := range out {
			local := map[string]bool{}
			for _, f := range d {
				if !local[f.String()] {
					local[f.String()] = true
					count[f.String()]++
					byStr[f.String()] = f
				}
			}
		}
		var common []lfact
		for k, n := range count {
			if n == len(out) {
				common = append(common, byStr[k])
			}
		}
		out = [][]lfact{common}
		vias = []int{-1}
		hists = []map[*ssa.BasicBlock]int{nil}
	}
	lp.memo[b] = out
	lp.memoVia[b] = vias
	lp.memoHist[b] = hists
	return out
}

// Prove: at a site in block b, do the path facts entail every goal on every path?
func (lp *LenProver) Prove(b *ssa.BasicBlock, goals []lin) (bool, []string, string) {
	return lp.ProveAt(b, nil, goals)
}

// ProveAt: like Prove, with the stores of b that precede instruction `at` taken into account.
func (lp *LenProver) ProveAt(b *ssa.BasicBlock, at ssa.Instruction, goals []lin) (bool, []string, string) {
	paths := lp.pathFacts(b)
	var fstr []string
	for pi, d0 := range paths {
		d := d0
		if at != nil {
			d = lp.applyStores(append([]lfact{}, d0...), b, at)
		}
		all := append(append([]lfact{}, d...), lp.defs...)
		var ds []string
		for _, f := range d {
			ds = append(ds, f.String())
		}
		fstr = append(fstr, fmt.Sprintf("path %d: %s", pi, strings.Join(ds, " ∧ ")))
		for _, g := range goals {
			if entails(all, g) {
				continue
			}
			var atoms []string
			for a := range lp.alts {
				atoms = append(atoms, a)
			}
			sort.Strings(atoms)
			proved := false
			for i := 0; i < len(atoms) && !proved; i++ {
				okAll := true
				for _, alt := range lp.alts[atoms[i]] {
					if !entails(append(append([]lfact{}, all...), alt...), g) {
						okAll = false
						break
					}
				}
				if okAll {
					proved = true
				}
			}
			for i := 0; i < len(atoms) && !proved; i++ {
				for j := i + 1; j < len(atoms) && !proved; j++ {
					okAll := true
					for _, a1 := range lp.alts[atoms[i]] {
						for _, a2 := range lp.alts[atoms[j]] {
							if !entails(append(append(append([]lfact{}, all...), a1...), a2...), g) {
								okAll = false
							}
						}
					}
					if okAll {
						proved = true
					}
				}
			}
			if !proved {
				var defs []string
				for _, f := range lp.defs {
					defs = append(defs, f.String())
				}
				return false, append(fstr, "definitions: "+strings.Join(defs, " ∧ ")), fmt.Sprintf("%s <= 0 on path %d", g.String(), pi)
			}
		}
	}
	return true, fstr, ""
}

// ---- sinks -------------------------------------------------------------------------------

type lenSink struct {
	Fn     *ssa.Function
	Instr  ssa.Instruction
	Kind   string // slice | index
	Goals  []lin
	Desc   string
	Atoms  []string
	Proved bool
	Facts  []string
	Failed string
	lp     *LenProver
}

// Sinks enumerates Slice and Index/IndexAddr sinks of fn with their proof status.
func LenSinks(p *Prog, fn *ssa.Function) []*lenSink {
	var out []*lenSink
	lp := NewLenProver(p, fn)
	for _, b := range fn.Blocks {
		for _, ins := range b.Instrs {
			var s *lenSink
			switch x := ins.(type) {
			case *ssa.Slice:
				ln := lp.lenTerm(x.X)
				if _, isStr := x.X.Type().Underlying().(*types.Basic); !isStr {
					// for slices the upper limit is cap; len is the safe under-approximation
				}
				lo := linConst(0)
				if x.Low != nil {
					lo = lp.term(x.Low)
				}
				hi := ln
				if x.High != nil {
					hi = lp.term(x.High)
				}
				goals := []lin{lo.scale(-1), lo.add(hi, -1), hi.add(ln, -1)} // 0<=lo, lo<=hi, hi<=len
				s = &lenSink{Fn: fn, Instr: ins, Kind: "slice", Goals: goals, Desc: fmt.Sprintf("%s[%s:%s] with len %s", x.X.Name(), lo, hi, ln)}
			case *ssa.IndexAddr:
				ln := lp.lenTerm(x.X)
				ix := lp.term(x.Index)
				s = &lenSink{Fn: fn, Instr: ins, Kind: "index", Goals: []lin{ix.scale(-1), ix.add(ln, -1).add(linConst(1), 1)}, Desc: fmt.Sprintf("%s[%s] with len %s", x.X.Name(), ix, ln)}
			case *ssa.Index:
				ln := lp.lenTerm(x.X)
				ix := lp.term(x.Index)
				s = &lenSink{Fn: fn, Instr: ins, Kind: "index", Goals: []lin{ix.scale(-1), ix.add(ln, -1).add(linConst(1), 1)}, Desc: fmt.Sprintf("%s[%s] with len %s", x.X.Name(), ix, ln)}
			case *ssa.SliceToArrayPointer:
				// [N]T(s) and (*[N]T)(s) panic when len(s) < N
				if pt, ok := x.Type().Underlying().(*types.Pointer); ok {
					if at, ok := pt.Elem().Underlying().(*types.Array); ok {
						ln := lp.lenTerm(x.X)
						s = &lenSink{Fn: fn, Instr: ins, Kind: "slice-to-array", Goals: []lin{linConst(at.Len()).add(ln, -1)}, Desc: fmt.Sprintf("[%d]…(%s) with len %s", at.Len(), x.X.Name(), ln)}
					}
				}
			}
			if s == nil {
				continue
			}
			s.lp = lp
			seen := map[string]bool{}
			for _, g := range s.Goals {
				for a := range g.c {
					if !seen[a] {
						seen[a] = true
						s.Atoms = append(s.Atoms, a)
					}
				}
			}
			sort.Strings(s.Atoms)
			s.Proved, s.Facts, s.Failed = lp.ProveAt(b, ins, s.Goals)
			if !s.Proved {
				// second chance for an extracted helper: assume what is known at its single call site
				lp2 := NewLenProver(p, fn)
				lp2.useEntry = true
				if lp2.entryFacts() != nil {
					s2 := rebuildGoals(lp2, ins)
					if s2 != nil {
						if ok, facts, failed := lp2.ProveAt(b, ins, s2); ok {
							s.Proved, s.Facts, s.Failed = true, append(facts, "with the facts of the helper's single call site"), failed
						}
					}
				}
			}
			out = append(out, s)
		}
	}
	return out
}

// AtomValue returns the SSA value behind an atom of this sink (for len atoms, the collection).
func (s *lenSink) AtomValue(a string) (ssa.Value, bool) {
	v, ok := s.lp.atomVal[a]
	return v, s.lp.atomLen[a] && ok
}

// canonLoad: loads through the same access path rooted at a parameter denote the same value when the
// function never stores through that path (go/ssa performs no CSE). Returns "" when not applicable.
func (lp *LenProver) canonLoad(v ssa.Value) string {
	u, ok := v.(*ssa.UnOp)
	if !ok || u.Op != token.MUL {
		return ""
	}
	if a, ok := u.X.(*ssa.Alloc); ok && lp.trackedCell(a) {
		return lp.cellAtom(a)
	}
	path := lp.canonAddr(u.X)
	if path == "" {
		return ""
	}
	return "*" + path
}

func (lp *LenProver) canonAddr(a ssa.Value) string {
	switch x := a.(type) {
	case *ssa.Parameter:
		return x.Name()
	case *ssa.FieldAddr:
		base := lp.canonAddr(x.X)
		if base == "" {
			return ""
		}
		f, _ := fieldOf(x)
		if f == nil || lp.storedField(f) {
			return ""
		}
		return base + "." + f.Name()
	case *ssa.UnOp:
		if x.Op == token.MUL {
			inner := lp.canonAddr(x.X)
			if inner == "" {
				return ""
			}
			return "(*" + inner + ")"
		}
	}
	return ""
}

func (lp *LenProver) storedField(f *types.Var) bool {
	if lp.stored == nil {
		lp.stored = map[*types.Var]bool{}
		allInstrs(lp.fn, true, func(ins ssa.Instruction) {
			if st, ok := ins.(*ssa.Store); ok {
				if fv, _ := fieldOf(st.Addr); fv != nil {
					// stores initialising a fresh composite literal are not stores through a parameter path
					if fa, ok := st.Addr.(*ssa.FieldAddr); ok {
						if _, fresh := fa.X.(*ssa.Alloc); fresh {
							return
						}
					}
					lp.stored[fv] = true
				}
			}
		})
	}
	return lp.stored[f]
}

// ProveAnyOnPath: under the given path facts, for every combination of helper/φ alternatives at least one
// of the goals is entailed.
func (lp *LenProver) ProveAnyOnPath(d []lfact, goals []lin) bool {
	base := append(append([]lfact{}, d...), lp.defs...)
	var atoms []string
	for a := range lp.alts {
		atoms = append(atoms, a)
	}
	sort.Strings(atoms)
	combos := [][]lfact{{}}
	for _, a := range atoms {
		var nc [][]lfact
		for _, c := range combos {
			for _, alt := range lp.alts[a] {
				nc = append(nc, append(append([]lfact{}, c...), alt...))
			}
		}
		combos = nc
		if len(combos) > 256 {
			return false
		}
	}
	for _, c := range combos {
		all := append(append([]lfact{}, base...), c...)
		ok := false
		for _, g := range goals {
			if entails(all, g) {
				ok = true
				break
			}
		}
		if !ok {
			return false
		}
	}
	return true
}

// ProveDNFOnPath: on path d, under every combination of helper-summary alternatives, one of the goal
// conjunctions holds entirely (goals: a disjunction of conjunctions of `lin <= 0`).
func (lp *LenProver) ProveDNFOnPath(d []lfact, goals [][]lin) bool {
	base := append(append([]lfact{}, d...), lp.defs...)
	var atoms []string
	for a := range lp.alts {
		atoms = append(atoms, a)
	}
	sort.Strings(atoms)
	combos := [][]lfact{{}}
	for _, a := range atoms {
		var nc [][]lfact
		for _, c := range combos {
			for _, alt := range lp.alts[a] {
				nc = append(nc, append(append([]lfact{}, c...), alt...))
			}
		}
		combos = nc
		if len(combos) > 256 {
			return false
		}
	}
	for _, c := range combos {
		all := append(append([]lfact{}, base...), c...)
		ok := false
		for _, conj := range goals {
			every := true
			for _, g := range conj {
				if !entails(all, g) {
					every = false
					break
				}
			}
			if every {
				ok = true
				break
			}
		}
		if !ok {
			return false
		}
	}
	return true
}

// trackedCell: an integer local whose address is taken but which no closure captures; its current value is
// tracked along each path (a store drops what was known about the previous value).
// Assumption: callees that receive the address (option structs) do not write through it.
func (lp *LenProver) trackedCell(a *ssa.Alloc) bool {
	pt, ok := a.Type().Underlying().(*types.Pointer)
	if !ok || !isIntType(pt.Elem()) {
		return false
	}
	if a.Parent() != lp.fn {
		return false
	}
	if refs := a.Referrers(); refs != nil {
		for _, r := range *refs {
			switch x := r.(type) {
			case *ssa.Store, *ssa.UnOp, *ssa.DebugRef:
			case *ssa.MakeClosure:
				// captured: still trackable when no closure ever stores to it (read-only capture, and the
				// closure is not a goroutine body — checked by the absence of stores)
				if cf, ok := x.Fn.(*ssa.Function); ok {
					stores := false
					allInstrs(cf, true, func(ins ssa.Instruction) {
						if st, ok := ins.(*ssa.Store); ok && resolveCell(st.Addr) == ssa.Value(a) {
							stores = true
						}
					})
					if stores {
						return false
					}
				} else {
					return false
				}
			default:
				_ = x
				return false
			}
		}
	}
	return true
}

func (lp *LenProver) cellAtom(a *ssa.Alloc) string {
	n := a.Comment
	if n == "" {
		n = a.Name()
	}
	return "cell:" + n + "·" + a.Name()
}

// applyStores updates a path's facts for the stores to tracked cells in blk (up to, not including, upto).
func (lp *LenProver) applyStores(d []lfact, blk *ssa.BasicBlock, upto ssa.Instruction) []lfact {
	for _, ins := range blk.Instrs {
		if ins == upto {
			break
		}
		st, ok := ins.(*ssa.Store)
		if !ok {
			continue
		}
		a, ok := st.Addr.(*ssa.Alloc)
		if !ok || !lp.trackedCell(a) {
			continue
		}
		atom := lp.cellAtom(a) + "@" + shortSSAFn(a.Parent())
		var nd []lfact
		for _, f := range d {
			if _, mentions := f.l.c[atom]; !mentions {
				nd = append(nd, f)
			}
		}
		t := lp.term(st.Val)
		if _, self := t.c[atom]; !self {
			nd = append(nd, lfact{linAtom(atom).add(t, -1), "eq"})
		}
		d = nd
	}
	return d
}

// boolHelperFacts: facts implied by a small first-party predicate returning `truth`, expressed over the
// caller's values (integer arguments and loads through pointer/struct arguments).
func (lp *LenProver) boolHelperFacts(call *ssa.Call, truth bool) []lfact {
	callee := call.Call.StaticCallee()
	if callee == nil || !lp.p.firstParty(calleePkg(callee)) || len(callee.Blocks) == 0 || len(callee.Blocks) > 12 || lp.depth > 2 {
		return nil
	}
	if b, ok := call.Type().Underlying().(*types.Basic); !ok || b.Kind() != types.Bool {
		return nil
	}
	lp.depth++
	defer func() { lp.depth-- }()
	sub := NewLenProver(lp.p, callee)
	sub.depth = lp.depth
	suffix := "@" + shortSSAFn(callee)
	mapAtom := func(a string) (lin, bool) {
		base := strings.TrimSuffix(a, suffix)
		if base == a {
			return lin{}, false
		}
		for i, par := range callee.Params {
			if i >= len(call.Call.Args) {
				break
			}
			arg := call.Call.Args[i]
			if base == par.Name() && isIntType(par.Type()) {
				return lp.term(arg), true
			}
			// loads through the parameter: "*par", "*(*par.F)", …
			if strings.Contains(base, par.Name()) && strings.HasPrefix(base, "*") {
				ca := lp.canonAddr(arg)
				if ca == "" {
					// the argument itself is a load (pointer value read from a field): its canonical address
					if u, ok := arg.(*ssa.UnOp); ok && u.Op == token.MUL {
						if inner := lp.canonAddr(u.X); inner != "" {
							ca = "(*" + inner + ")"
						}
					}
				}
				if ca == "" {
					return lin{}, false
				}
				mapped := strings.Replace(base, par.Name(), ca, 1)
				name := mapped + "@" + shortSSAFn(lp.fn)
				if _, ok := lp.atomVal[name]; !ok {
					lp.atomVal[name] = arg
				}
				return linAtom(name), true
			}
		}
		return lin{}, false
	}
	var alts [][]lfact
	for _, b := range callee.Blocks {
		ret, ok := b.Instrs[len(b.Instrs)-1].(*ssa.Return)
		if !ok || len(ret.Results) != 1 {
			continue
		}
		paths := sub.pathFacts(b)
		vias := sub.memoVia[b]
		for di, d := range paths {
			v := ret.Results[0]
			if phi, isPhi := v.(*ssa.Phi); isPhi && phi.Block() == b {
				if di < len(vias) && vias[di] >= 0 && vias[di] < len(phi.Edges) {
					v = phi.Edges[vias[di]]
				} else {
					return nil
				}
			}
			fs := append([]lfact{}, d...)
			switch c := v.(type) {
			case *ssa.Const:
				if c.Value == nil || c.Value.Kind() != constant.Bool || constant.BoolVal(c.Value) != truth {
					continue
				}
			default:
				fs = append(fs, sub.condFacts(v, truth)...)
			}
			alts = append(alts, fs)
		}
	}
	if len(alts) == 0 {
		return nil
	}
	// facts common to every way of returning `truth`, mapped into the caller
	count := map[string]int{}
	by := map[string]lfact{}
	for _, a := range alts {
		seen := map[string]bool{}
		for _, f := range a {
			if !seen[f.String()] {
				seen[f.String()] = true
				count[f.String()]++
				by[f.String()] = f
			}
		}
	}
	var out []lfact
	for k, n := range count {
		if n != len(alts) {
			continue
		}
		f := by[k]
		m := linConst(f.l.k)
		ok := true
		for a, cf := range f.l.c {
			t, okm := mapAtom(a)
			if !okm {
				ok = false
				break
			}
			m = m.add(t, cf)
		}
		if ok {
			out = append(out, lfact{m, f.op})
		}
	}
	return out
}

// entryFacts: for an unexported helper with exactly one first-party call site, what is known at that call
// site (the caller's path facts) with the helper's integer/slice parameters equated to the arguments.
func (lp *LenProver) entryFacts() [][]lfact {
	if lp.depth > 0 || lp.noEntry || !lp.useEntry {
		return nil
	}
	o, ok := lp.fn.Object().(*types.Func)
	if !ok || token.IsExported(o.Name()) || lp.p.callSiteCounts()[o] != 1 {
		return nil
	}
	// find the call site
	var site *ssa.Call
	for _, f := range lp.p.Fns {
		if f.Pkg.Types != o.Pkg() || f.Parent != nil || f.Obj == nil {
			continue
		}
		sf := lp.p.SSA.FuncValue(f.Obj)
		if sf == nil {
			continue
		}
		allInstrs(sf, true, func(ins ssa.Instruction) {
			if call, ok := ins.(*ssa.Call); ok && call.Call.StaticCallee() == lp.fn {
				site = call
			}
		})
	}
	if site == nil {
		return nil
	}
	caller := NewLenProver(lp.p, site.Parent())
	caller.noEntry = true
	caller.depth = 1
	var out [][]lfact
	for _, d0 := range caller.pathFacts(site.Block()) {
		d := caller.applyStores(append([]lfact{}, d0...), site.Block(), site)
		for i, par := range lp.fn.Params {
			if i >= len(site.Call.Args) {
				break
			}
			switch {
			case isIntType(par.Type()):
				d = append(d, lfact{lp.term(par).add(caller.term(site.Call.Args[i]), -1), "eq"})
			case isLenType(par.Type()):
				d = append(d, lfact{lp.lenTerm(par).add(caller.lenTerm(site.Call.Args[i]), -1), "eq"})
			}
		}
		d = append(d, caller.defs...)
		out = append(out, d)
	}
	if len(out) == 0 || len(out) > 16 {
		return nil
	}
	return out
}

// rebuildGoals recomputes the bound obligations of a sink instruction in another prover's term space.
func rebuildGoals(lp *LenProver, ins ssa.Instruction) []lin {
	switch x := ins.(type) {
	case *ssa.Slice:
		ln := lp.lenTerm(x.X)
		lo := linConst(0)
		if x.Low != nil {
			lo = lp.term(x.Low)
		}
		hi := ln
		if x.High != nil {
			hi = lp.term(x.High)
		}
		return []lin{lo.scale(-1), lo.add(hi, -1), hi.add(ln, -1)}
	case *ssa.IndexAddr:
		ln, ix := lp.lenTerm(x.X), lp.term(x.Index)
		return []lin{ix.scale(-1), ix.add(ln, -1).add(linConst(1), 1)}
	case *ssa.Index:
		ln, ix := lp.lenTerm(x.X), lp.term(x.Index)
		return []lin{ix.scale(-1), ix.add(ln, -1).add(linConst(1), 1)}
	case *ssa.SliceToArrayPointer:
		if pt, ok := x.Type().Underlying().(*types.Pointer); ok {
			if at, ok := pt.Elem().Underlying().(*types.Array); ok {
				return []lin{linConst(at.Len()).add(lp.lenTerm(x.X), -1)}
			}
		}
	}
	return nil
}

func hasBoolPhi(b *ssa.BasicBlock) bool {
	for _, ins := range b.Instrs {
		phi, ok := ins.(*ssa.Phi)
		if !ok {
			return false
		}
		if bt, ok := phi.Type().Underlying().(*types.Basic); ok && bt.Info()&types.IsBoolean != 0 {
			return true
		}
	}
	return false
}

func histKey(h map[*ssa.BasicBlock]int) string {
	if len(h) == 0 {
		return ""
	}
	var ks []string
	for b, i := range h {
		ks = append(ks, fmt.Sprintf("%d:%d", b.Index, i))
	}
	sort.Strings(ks)
	return strings.Join(ks, ",")
}
