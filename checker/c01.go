package main

// c01.go — replicas converge: determinism of the merge/linearisation closure, no-op merges, and the
// information the merged head set must depend on.

import (
	"fmt"
	"go/ast"
	"go/token"
	"go/types"
	"sort"
	"strings"

	"golang.org/x/tools/go/ssa"
)

func init() {
	register(&PropSpec{ID: "C01", Level: "other", Run: runC01,
		Explanation: "Decides structural necessary conditions of convergence on every path: (R-C01.1) the merge/linearisation closure (functions reachable from Join, Append, values, traverse, Heads, ToJSONLog, FindHeads, difference, the ordered map and the sorters) contains no order-sensitive range over a Go map, no time/rand call, no multi-way select and no cross-call scratch state, and the only value that depends on goroutine completion order (the aggregated validation error) flows into no state store; (R-C01.2) every state change of Join is dominated by the equal-log-id edge (a log of a different id changes nothing); (R-C01.3) the head set stored by the unbounded merge depends (data or control, SSA backward slice) on all four inputs a correct merge needs — the destination's heads, the source's heads, the predecessor links of the new items, and the destination's predecessor index (Next) or entry index — dropping any of the head filters breaks one dependency; (R-C01.4) the apply phase indexes every predecessor link of every new item unconditionally and inserts every new item unconditionally; (R-C01.5) ordered-map copies never share the key slice with their source, and the merged-heads map is a new map (Merge does not mutate its receiver or argument). Not covered: the algebra itself (commutativity, associativity, idempotence as set equalities).",
	})
}

func runC01(c *Ctx, r *Report) {
	p := c.P
	r.Doc("R-C01.1", "determinism of the merge/linearisation closure")
	r.Doc("R-C01.2", "a merge with a log of a different id changes nothing: state changes dominated by the equal-id edge")
	r.Doc("R-C01.3", "merged heads depend on destination heads, source heads, new items' predecessor links and the destination's predecessor index")
	r.Doc("R-C01.4", "the apply phase indexes and inserts every new item unconditionally")
	r.Doc("R-C01.5", "ordered-map copies and merges do not alias or mutate their sources")
	r.Doc("R-C01.7", "a reopened replica orders with the comparator it was configured with (replicas with the same entries and different comparators do not converge)")
	optionForwarding(c, r, "R-C01.7", append(constructorLoaderSpecs(), constructorLogSpecs()...), "SortFn")
	r.Doc("R-C01.8", "no element of a list that decides heads or order is skipped: a slice is not shortened in place inside the index loop that walks it unless the index steps back")
	removalWhileIterating(c, r, "R-C01.8")
	r.Doc("R-C01.9", "the loops of the merge (candidates, validation, apply, head filters, map copies) process every element")
	loopsComplete(c, r, "R-C01.9", func(fn *Fn) bool {
		return rootNamed(fn, "Join", "difference", "FindHeads", "NewOrderedMapFromEntries", "Merge", "Copy", "Slice", "Keys") || inPkgs(c.P, fn, "entry/sorting")
	}, "part of the candidates, links or heads is left out of the merge, so the result depends on what was left out — replicas that merged in another order disagree")
	r.Doc("R-C01.11", "the head computation two replicas must agree on: the head scan, the predecessor index a log starts with, the walk from the read heads, and Append reading and replacing the heads in one critical section (adopted from C02)")
	importRules(c, r, "C02", []string{"R-C02.1", "R-C02.2", "R-C02.4", "R-C02.10"}, "R-C01.11")
	r.Doc("R-C01.12", "the orderings the linearisation relies on are lawful orders (adopted from C19: replicas only expose the same sequence under a strict total order)")
	importRules(c, r, "C19", []string{"R-C19.0", "R-C19.1", "R-C19.2", "R-C19.3", "R-C19.4", "R-C19.6"}, "R-C01.12")
	r.Doc("R-C01.13", "distinct entries get distinct identifiers: the block keeps every field exactly as the entry holds it (adopted from C08: everything a replica holds is keyed by the identifier, so a lossy block makes two different entries one and replicas keep whichever they saw first)")
	importRules(c, r, "C08", []string{"R-C08.2"}, "R-C01.13")
	r.Doc("R-C01.14", "a refused append or merge leaves the entry index, the predecessor index and the heads untouched (adopted from C02: a phantom link makes the next merge drop the replica's own heads, and the replicas no longer hold the same entries)")
	importRules(c, r, "C02", []string{"R-C02.7"}, "R-C01.14")
	r.Doc("R-C01.15", "the clock of an entry a log holds is never written (adopted from C05: entry objects are shared by the replicas of a process, so a clock raised in place makes the in-memory replica linearise differently from one that loaded the same entries, and the entry stops verifying)")
	importRules(c, r, "C05", []string{"R-C05.1"}, "R-C01.15")
	r.Doc("R-C01.16", "a view is taken in one critical section (adopted from C13: a replica restored from a snapshot whose values are newer than its heads exposes other heads and values than the replica it was taken from)")
	importRules(c, r, "C13", []string{"R-C13.12"}, "R-C01.16", 0)
	r.Doc("R-C01.18", "every success return of Join after its lock is preceded on all paths by the candidate walk over the other log (no shortcut decides that there is nothing to merge)")
	mergeWalksBeforeSuccess(c, r, "R-C01.18")
	r.Doc("R-C01.17", "which entries a merge takes over is decided by what the destination holds and by the log id only: no test on the entry's content controls the candidate walk (an entry appendable by its writer and skipped by the merge keeps the replicas apart for good)")
	candidatesChosenByIdentityOnly(c, r, "R-C01.17")
	r.Doc("R-C01.10", "entries are filed in the entry index under their own hash and in the predecessor index under their own predecessor links (a link index fed from references, or from another list, makes head filtering depend on merge order)")
	indexKeys(c, r, "R-C01.10")
	join := p.FuncI("", "IPFSLog", "Join")

	// ---- R-C01.1
	var roots []*Fn
	for _, t := range []struct{ pkg, recv, name string }{{"", "IPFSLog", "Join"}, {"", "IPFSLog", "Append"}, {"", "IPFSLog", "values"}, {"", "IPFSLog", "traverse"}, {"", "IPFSLog", "Heads"}, {"", "IPFSLog", "ToJSONLog"}, {"entry", "", "FindHeads"}, {"", "", "difference"}} {
		roots = append(roots, p.FuncI(t.pkg, t.recv, t.name))
	}
	om := p.Named("entry", "OrderedMap")
	for i := 0; i < om.NumMethods(); i++ {
		if fn := p.ByObj[om.Method(i)]; fn != nil {
			roots = append(roots, fn)
		}
	}
	for _, n := range []string{"Sort", "SortByClocks", "SortByClockID", "SortByEntryHash", "LastWriteWins", "FirstWriteWins", "NoZeroes", "Compare", "First"} {
		roots = append(roots, p.FuncI("entry/sorting", "", n))
	}
	closure := c.CG.Reach(roots, false)
	// exclude the block-writing side (entry creation talks to the store; its output is covered by C08)
	n := 0
	for fn := range closure {
		pk := fn.Pkg.PkgPath
		if pk != p.Mod && pk != p.pkgPath("entry") && pk != p.pkgPath("entry/sorting") {
			continue
		}
		n++
		detScan(c, r, "R-C01.1", fn)
	}
	r.Floor("R-C01.1", "functions in the merge/linearisation closure", n, 20)
	// NewLog's default id uses time.Now — listed, not part of the merge closure
	// the aggregated error flows only into the error result
	errVars := capturedErrVars(p, join)
	bad := ""
	walkNoLit(join.Body, func(nd ast.Node) bool {
		id, ok := nd.(*ast.Ident)
		if !ok || !errVars[p.ObjOf(join, id)] {
			return true
		}
		// the field of an aggregate (`failure.err`): the selector is the use
		use := ast.Node(id)
		if se, ok := p.parent[id].(*ast.SelectorExpr); ok && se.Sel == id {
			use = se
		}
		switch par := p.parent[use].(type) {
		case *ast.BinaryExpr, *ast.ValueSpec:
		case *ast.CallExpr: // Wrap(err) in the return
			if _, isRet := p.parent[par].(*ast.ReturnStmt); !isRet {
				bad = p.Pos(id.Pos())
			}
		case *ast.AssignStmt:
			for _, rhs := range par.Rhs {
				if ast.Node(rhs) == use {
					bad = p.Pos(id.Pos())
				}
			}
		case *ast.ReturnStmt:
		default:
			bad = p.Pos(id.Pos())
		}
		return true
	})
	r.Check(bad == "", "R-C01.1", r.Key("R-C01.1", join, "completion-order-value", "err"), join.Body.Pos(),
		"the validation error (whose value depends on goroutine completion order) is only tested and returned", "the completion-order-dependent validation error flows into log state at "+bad)

	// ---- R-C01.2
	idF := p.Field("", "IPFSLog", "ID")
	all := map[*types.Var]bool{}
	for _, f := range []string{"Entries", "Next", "heads", "Clock"} {
		all[p.Field("", "IPFSLog", f)] = true
	}
	jf := &Flow{P: p, Fn: join, Entry: Facts{}}
	jf.Edge = func(cond ast.Expr, taken bool, f Facts) {
		for _, a := range splitCond(cond, taken) {
			be, ok := ast.Unparen(a.E).(*ast.BinaryExpr)
			if !ok || !((be.Op == token.EQL && a.Truth) || (be.Op == token.NEQ && !a.Truth)) {
				continue
			}
			for _, pr := range [][2]ast.Expr{{be.X, be.Y}, {be.Y, be.X}} {
				if v, _ := p.FieldSel(join, pr[0]); v == idF {
					if call, ok := ast.Unparen(pr[1]).(*ast.CallExpr); ok {
						if se, ok := ast.Unparen(call.Fun).(*ast.SelectorExpr); ok && se.Sel.Name == "GetID" {
							f["sameID"] = true
						}
					}
				}
			}
		}
	}
	jf.Run()
	nsc := 0
	jf.Visit(func(_ *cfgBlk, nd ast.Node, before Facts) {
		for _, sc := range logStateChanges(p, join, nd, all) {
			nsc++
			r.Check(before["sameID"], "R-C01.2", r.Key("R-C01.2", join, sc.What, ""), sc.Pos,
				"state changes only on the equal-log-id path", sc.What+" in Join is reachable when the other log has a different id: merging a foreign log changes the heads/clock/index")
		}
	})
	r.Floor("R-C01.2", "state changes in Join", nsc, 3)

	// ---- R-C01.3
	mergedHeadsDeps(c, r, "R-C01.3", join)
	nextF, entriesF := p.Field("", "IPFSLog", "Next"), p.Field("", "IPFSLog", "Entries")

	// ---- R-C01.4
	nApply := 0
	walkNoLit(join.Body, func(nd ast.Node) bool {
		call, ok := nd.(*ast.CallExpr)
		if !ok {
			return true
		}
		se, ok := ast.Unparen(call.Fun).(*ast.SelectorExpr)
		if !ok || se.Sel.Name != "Set" {
			return true
		}
		v, _ := p.FieldSel(join, se.X)
		if v != nextF && v != entriesF {
			return true
		}
		nApply++
		cond := ""
		for cur := p.parent[ast.Node(call)]; cur != nil && cur != ast.Node(join.Body); cur = p.parent[cur] {
			switch x := cur.(type) {
			case *ast.IfStmt:
				// the bounded-merge block and the validation test are not inside the apply loops
				if insideLoop(p, join, x) {
					cond = p.Pos(x.Pos())
				}
			case *ast.SwitchStmt, *ast.SelectStmt:
				cond = p.Pos(x.Pos())
			}
		}
		if cond == "" {
			depth := 1
			if v == nextF {
				depth = 2
			}
			if ok, why := loopComplete(p, join, call, depth, false, false); !ok {
				cond = why
			}
		}
		r.Check(cond == "", "R-C01.4", r.Key("R-C01.4", join, "apply", v.Name()), call.Pos(),
			v.Name()+".Set in the apply loop is unconditional for every new item", v.Name()+".Set in the apply loop does not run for every new item and link ("+cond+"): some new items (or some of their predecessor links) are not indexed, so later head computations depend on the order in which entries arrived")
		return true
	})
	r.Floor("R-C01.4", "index updates in Join's apply phase", nApply, 2)

	// ---- R-C01.5
	keysF := p.Field("entry", "OrderedMap", "keys")
	for i := 0; i < om.NumMethods(); i++ {
		fn := p.ByObj[om.Method(i)]
		if fn == nil {
			continue
		}
		sfm := p.SSAFunc(fn)
		allInstrs(sfm, false, func(ins ssa.Instruction) {
			st, ok := ins.(*ssa.Store)
			if !ok {
				return
			}
			f, fa := fieldOf(st.Addr)
			if f != keysF {
				return
			}
			_, freshObj := fa.X.(*ssa.Alloc)
			if !freshObj {
				return // stores to the receiver's own keys are R-C05.2's
			}
			okFresh := false
			switch v := st.Val.(type) {
			case *ssa.MakeSlice:
				okFresh = true
			case *ssa.Const:
				okFresh = v.IsNil()
			case *ssa.Call:
				if b, ok := v.Call.Value.(*ssa.Builtin); ok && b.Name() == "append" {
					if cst, ok := v.Call.Args[0].(*ssa.Const); ok && cst.IsNil() {
						okFresh = true
					}
				}
			}
			r.Check(okFresh, "R-C01.5", r.Key("R-C01.5", fn, "new-map-keys", ""), st.Pos(),
				"a new ordered map gets a freshly allocated key slice", "a new ordered map is built on (a slice of) another map's key array: appends on either side overwrite the other's keys, so replicas list different entries")
		})
	}
	pureMerge(c, r, "R-C01.5")
	r.Doc("R-C01.6", "Join computes the candidates, validates and applies in one critical section of the destination")
	joinSingleSection(c, r, "R-C01.6", "an append completing in the window stays in the index but is lost from the heads (and is never propagated)")
}

// joinSingleSection: Join reads the destination, validates and applies inside one critical section (shared by
// C01 and C16: a truncation computed from a stale difference keeps a set that no serial order produces).
func joinSingleSection(c *Ctx, r *Report, rule, consequence string) {
	p := c.P
	join := p.FuncI("", "IPFSLog", "Join")
	le := repoLockEngine(c)
	split := false
	for _, sp := range le.Splits {
		if sp.Fn.Root() == orig(join) {
			split = true
			r.Violate(rule, r.Key(rule, join, "store-after-reopen", sp.Field), sp.Pos, "Join releases the destination's lock between computing the merge and storing "+sp.Field+": "+consequence)
		}
	}
	if !split {
		r.Hold(rule, r.Key(rule, join, "single-region", ""), join.Body.Pos(), true, "all guarded reads and writes of Join lie in one critical section")
	}
}

// pureMerge: OrderedMap.Merge builds a new map and only reads its operands (shared by C01 and C03).
func pureMerge(c *Ctx, r *Report, rule string) {
	p := c.P
	mg := p.FuncI("entry", "OrderedMap", "Merge")
	mutates := ""
	walkNoLit(mg.Body, func(nd ast.Node) bool {
		if call, ok := nd.(*ast.CallExpr); ok {
			if se, ok := ast.Unparen(call.Fun).(*ast.SelectorExpr); ok && (se.Sel.Name == "Set" || se.Sel.Name == "Reverse") {
				if id, ok := ast.Unparen(se.X).(*ast.Ident); ok {
					o := p.ObjOf(mg, id)
					if o == mg.Pkg.TypesInfo.Defs[mg.Decl.Recv.List[0].Names[0]] || o == paramObj(mg, 0) {
						mutates = id.Name
					}
				}
			}
		}
		if as, ok := nd.(*ast.AssignStmt); ok {
			for _, l := range as.Lhs {
				if v, _ := p.FieldSel(mg, stripIndexStar(l)); v != nil {
					mutates = "field " + v.Name()
				}
			}
		}
		return true
	})
	r.Check(mutates == "", rule, r.Key(rule, mg, "pure-merge", ""), mg.Body.Pos(),
		"Merge only reads its receiver and argument and returns a new map", "Merge mutates "+mutates+": a heads map that another goroutine or another log holds as an immutable snapshot changes under it")
	_ = fmt.Sprintf
	_ = strings.Join
}

func insideLoop(p *Prog, fn *Fn, n ast.Node) bool {
	for cur := p.parent[n]; cur != nil && cur != ast.Node(fn.Body); cur = p.parent[cur] {
		switch cur.(type) {
		case *ast.ForStmt, *ast.RangeStmt:
			return true
		}
	}
	return false
}

func derivesFromParam(v ssa.Value, par *ssa.Parameter) bool {
	return backSlice(v, nil)[par]
}

// mergedHeadsDeps: the head set stored by the unbounded merge depends on the four inputs a correct merge needs.
func mergedHeadsDeps(c *Ctx, r *Report, rule string, join *Fn) {
	p := c.P
	sf := p.SSAFunc(join)
	headsF, nextF := p.Field("", "IPFSLog", "heads"), p.Field("", "IPFSLog", "Next")
	hs := fieldStores(sf, headsF, false)
	if len(hs) == 0 {
		r.Violate(rule, r.Key(rule, join, "heads-store", ""), join.Body.Pos(), "Join never stores the merged heads")
	} else {
		// the unbounded merge's store: the first in dominance order
		sort.Slice(hs, func(i, j int) bool { return instrDominates(hs[i], hs[j]) })
		st := hs[0]
		bs := backSliceOpt(st.Val, nil, true)
		other := sf.Params[1]
		if len(sf.Params) < 3 {
			infra("Join signature changed")
		}
		dep := map[string]bool{}
		for x := range bs {
			switch y := x.(type) {
			case *ssa.UnOp:
				if y.Op == token.MUL {
					switch f, _ := fieldOf(y.X); f {
					case headsF:
						dep["destination heads"] = true
					case nextF:
						dep["destination predecessor index"] = true
					}
				}
			case *ssa.Call:
				if y.Call.IsInvoke() {
					switch y.Call.Method.Name() {
					case "RawHeads", "Heads", "ToSnapshot":
						if derivesFromParam(y.Call.Value, other) {
							dep["source heads"] = true
						}
					case "GetNext":
						dep["predecessor links of the new items"] = true
					}
				}
			}
		}
		// the candidate set handed to the head scan is built from the two head sets, not from the source's entry index
		isSrcEntries := func(v ssa.Value) bool {
			switch y := v.(type) {
			case *ssa.Call:
				if y.Call.IsInvoke() && (y.Call.Method.Name() == "GetEntries" || y.Call.Method.Name() == "Values") && derivesFromParam(y.Call.Value, other) {
					return true
				}
			case *ssa.Extract:
				if call, ok := y.Tuple.(*ssa.Call); ok && y.Index == 1 {
					if cal := call.Call.StaticCallee(); cal != nil && len(call.Call.Args) > 0 && derivesFromParam(call.Call.Args[0], other) {
						if _, isMap := y.Type().Underlying().(*types.Interface); isMap {
							return true
						}
					}
				}
			}
			return false
		}
		nscan := 0
		var scans []*ssa.Call
		for x := range bs {
			call, ok := x.(*ssa.Call)
			if !ok || call.Parent() != sf {
				continue
			}
			if f := calleeOf(call); f == nil || f.Name() != "FindHeads" || len(call.Call.Args) != 1 {
				continue
			}
			scans = append(scans, call)
		}
		sort.Slice(scans, func(i, j int) bool { return scans[i].Pos() < scans[j].Pos() }) // ordinals follow the source order
		for _, call := range scans {
			nscan++
			fromEntries := ""
			for y := range backSlice(call.Call.Args[0], nil) {
				if isSrcEntries(y) {
					fromEntries = p.Pos(y.Pos())
				}
			}
			// … on every path: each alternative the candidate set is chosen from contains the destination's heads
			var alts func(v ssa.Value, depth int) []ssa.Value
			alts = func(v ssa.Value, depth int) []ssa.Value {
				if ph, ok := v.(*ssa.Phi); ok && depth < 4 {
					var out []ssa.Value
					for _, e := range ph.Edges {
						out = append(out, alts(e, depth+1)...)
					}
					return out
				}
				return []ssa.Value{v}
			}
			for i, alt := range alts(call.Call.Args[0], 0) {
				hasOwn := false
				for y := range backSlice(alt, nil) {
					if u, ok := y.(*ssa.UnOp); ok && u.Op == token.MUL {
						if f, _ := fieldOf(u.X); f == headsF {
							hasOwn = true
						}
					}
				}
				pos := alt.Pos()
				if !pos.IsValid() {
					pos = call.Pos()
				}
				r.Check(hasOwn, rule, r.Key(rule, join, "head-candidates-own", fmt.Sprint(i)), pos,
					"this choice of candidates for the merged heads contains the destination's own heads",
					"on one path the candidate set handed to the head scan is built without the destination's heads: whatever the destination held beside the merged entries stops being a head — it is referenced by nothing and no later append names it, so a manifest written from the heads no longer reaches it")
			}
			r.Check(fromEntries == "", rule, r.Key(rule, join, "head-candidates", ""), call.Pos(),
				"the candidates for the merged heads are the two head sets",
				"the candidate set handed to the head scan is built from the source's entry index (read at "+fromEntries+") instead of its heads: the index can be newer than the heads that were read, so entries that were merged and are unreferenced end up outside the heads (or the log is left with no heads at all)")
		}
		r.Floor(rule, "head scans feeding the merged heads", nscan, 1)
		for _, need := range []string{"destination heads", "source heads", "predecessor links of the new items", "destination predecessor index"} {
			r.Check(dep[need], rule, r.Key(rule, join, "heads-depend-on", need), st.Pos(),
				"the merged head set depends on the "+need, "the head set stored by the merge does not depend on the "+need+": "+map[string]string{
					"destination heads":                  "the destination's own heads are lost",
					"source heads":                       "the source's heads never become heads",
					"predecessor links of the new items": "an old head named by a merged entry stays a head (heads then depend on merge order)",
					"destination predecessor index":      "a source head that the destination already extends becomes a spurious head (heads then depend on merge order)",
				}[need])
		}
	}

}

// removalWhileIterating: in the merge/linearisation closure, `x = append(x[:i], x[i+1:]...)` inside a loop that
// walks x by index i skips the element that slides into position i — unless i is decremented on that path.
func removalWhileIterating(c *Ctx, r *Report, rule string) {
	p := c.P
	var roots []*Fn
	for _, t := range []struct{ pkg, recv, name string }{{"", "IPFSLog", "Join"}, {"", "IPFSLog", "Append"}, {"", "IPFSLog", "traverse"}, {"entry", "", "FindHeads"}, {"", "", "difference"}, {"", "IPFSLog", "Heads"}} {
		roots = append(roots, p.FuncI(t.pkg, t.recv, t.name))
	}
	nloops, nbad := 0, 0
	for fn := range c.CG.Reach(roots, false) {
		if !p.firstParty(fn.Pkg.Types) {
			continue
		}
		walkNoLit(fn.Body, func(n ast.Node) bool {
			var body *ast.BlockStmt
			var idx, coll types.Object
			switch x := n.(type) {
			case *ast.ForStmt:
				be, ok := x.Cond.(*ast.BinaryExpr)
				if !ok || (be.Op != token.LSS && be.Op != token.NEQ) {
					return true
				}
				iid, ok := ast.Unparen(be.X).(*ast.Ident)
				if !ok {
					return true
				}
				call, ok := ast.Unparen(be.Y).(*ast.CallExpr)
				if !ok || p.Builtin(fn, call) != "len" || len(call.Args) != 1 {
					return true
				}
				cid, ok := ast.Unparen(call.Args[0]).(*ast.Ident)
				if !ok {
					return true
				}
				body, idx, coll = x.Body, p.ObjOf(fn, iid), p.ObjOf(fn, cid)
			case *ast.RangeStmt:
				kid, ok := x.Key.(*ast.Ident)
				cid, ok2 := ast.Unparen(x.X).(*ast.Ident)
				if !ok || !ok2 || kid.Name == "_" {
					return true
				}
				if _, isSlice := p.TypeOf(fn, cid).Underlying().(*types.Slice); !isSlice {
					return true
				}
				body, idx, coll = x.Body, p.ObjOf(fn, kid), p.ObjOf(fn, cid)
			default:
				return true
			}
			if body == nil || idx == nil || coll == nil {
				return true
			}
			nloops++
			walkNoLit(body, func(m ast.Node) bool {
				as, ok := m.(*ast.AssignStmt)
				if !ok || len(as.Lhs) != 1 || len(as.Rhs) != 1 {
					return true
				}
				lid, ok := ast.Unparen(as.Lhs[0]).(*ast.Ident)
				if !ok || p.ObjOf(fn, lid) != coll {
					return true
				}
				call, ok := ast.Unparen(as.Rhs[0]).(*ast.CallExpr)
				if !ok || p.Builtin(fn, call) != "append" || len(call.Args) < 2 {
					return true
				}
				se, ok := ast.Unparen(call.Args[0]).(*ast.SliceExpr)
				if !ok {
					return true
				}
				if sid, ok := ast.Unparen(se.X).(*ast.Ident); !ok || p.ObjOf(fn, sid) != coll {
					return true
				}
				// the index steps back in the same block?
				stepped := false
				if blk, ok := p.parent[as].(*ast.BlockStmt); ok {
					for _, st := range blk.List {
						if ids, ok := st.(*ast.IncDecStmt); ok && ids.Tok == token.DEC {
							if id, ok := ast.Unparen(ids.X).(*ast.Ident); ok && p.ObjOf(fn, id) == idx {
								stepped = true
							}
						}
						if as2, ok := st.(*ast.AssignStmt); ok && as2.Tok == token.SUB_ASSIGN && len(as2.Lhs) == 1 {
							if id, ok := ast.Unparen(as2.Lhs[0]).(*ast.Ident); ok && p.ObjOf(fn, id) == idx {
								stepped = true
							}
						}
					}
				}
				if !stepped {
					nbad++
					r.Violate(rule, r.Key(rule, fn, "removal-while-iterating", coll.Name()), as.Pos(), "the slice "+coll.Name()+" is shortened in place inside the loop that walks it by index "+idx.Name()+" and the index is not stepped back: the element that slides into the freed position is never examined (two adjacent candidates that must both be dropped leave the second one in — a stale head that repeating the merge does not repair)")
				}
				return true
			})
			return true
		})
	}
	if nbad == 0 {
		r.Hold(rule, r.Key(rule, nil, "no-removal-while-iterating", ""), token.NoPos, true, fmt.Sprintf("%d index/range loops over slices in the merge closure, none shortens the slice it walks", nloops))
	}
	r.Floor(rule, "index/range loops over slices in the merge closure", nloops, 1) // an expected-zero rule: the floor only guards against an empty closure
}

// mergeWalksBeforeSuccess (R-C01.18): every success return of Join reached after its lock is taken is preceded on every
// path by the candidate walk (the call of `difference`): whether there is something to merge is decided by walking
// the other log's history from all its heads, never by a shortcut over sizes or a single head.
func mergeWalksBeforeSuccess(c *Ctx, r *Report, rule string) {
	p := c.P
	join := p.Func("", "IPFSLog", "Join") // as declared: the inlining views splice the walk's body in
	diff := p.FuncObj("", "", "difference")
	jf := &Flow{P: p, Fn: join, Entry: Facts{}}
	jf.Node = func(n ast.Node, f Facts) {
		walkNoLit(n, func(nd ast.Node) bool {
			if call, ok := nd.(*ast.CallExpr); ok {
				if cf := p.Callee(join, call); cf != nil {
					if cf.Pkg() != nil && cf.Pkg().Path() == "sync" && cf.Name() == "Lock" {
						if _, isDefer := p.parent[call].(*ast.DeferStmt); !isDefer {
							f["locked"] = true
						}
					}
					if cf == diff {
						f["walked"] = true
					}
				}
			}
			return true
		})
	}
	jf.Run()
	nsr := 0
	jf.Exits(func(_ *cfgBlk, ret *ast.ReturnStmt, at Facts) {
		if ret == nil || !at["locked"] {
			return
		}
		if isNil, hasErr := errResultIsNil(p, join, ret); hasErr && isNil {
			nsr++
			r.Check(at["walked"], rule, r.Key(rule, join, "success-return", ""), ret.Pos(),
				"every path to this success return has walked the other log's history for candidates",
				"Join can return success after taking its lock without having walked the other log for candidates: a shortcut (sizes compared, one head already held) skips the branches under the other heads, so the result depends on which replica merged first and replicas that merged the same entries diverge")
		}
	})
	r.Floor(rule, "success returns of Join after the lock", nsr, 1)
}
