package main

// c07.go — signatures are tamper-evident over every signed field: field coverage, order/multiplicity,
// injective conversions on the signing path, every success of Verify passes the signature check.

import (
	"fmt"
	"go/ast"
	"go/token"
	"go/types"
	"sort"
	"strings"

	"golang.org/x/tools/go/ssa"
)

func init() {
	register(&PropSpec{ID: "C07", Level: "other", Run: runC07,
		Explanation: "Decides on every path of the signing pipeline: (R-C07.1) each signed part named by the property (log id, payload, predecessors, references, version, clock id and time, additional data) is read by ToHashable through its getter and stored in the matching Hashable field, and toBuffer reads each of those fields into the argument of json.Marshal (SSA backward slices); (R-C07.2) predecessor and reference lists reach the signed bytes element-wise: the output list has the length of the getter's own result and element i is stored from element i (no sort, no set, no helper in between); (R-C07.3) every conversion on the path from a signed field to json.Marshal is injective — hex/base58 encoders are accepted, a []byte→string conversion feeding encoding/json is not (invalid UTF-8 collapses to U+FFFD), nor is a merge of two different encodings of the same field; (R-C07.4) every success return of Entry.Verify is dominated by the true result of PubKey.Verify on bytes from toBuffer. Not covered: unforgeability, that a different key fails.",
		Trusted:     []string{"encoding/json.Marshal is injective on valid UTF-8 strings, integers and string lists with sorted map keys"},
	})
}

func runC07(c *Ctx, r *Report) {
	p := c.P
	r.Doc("R-C07.1", "field coverage: getter → Hashable field → json.Marshal argument, for every signed part")
	r.Doc("R-C07.2", "predecessor/reference lists are converted element-wise from the getter's own result")
	r.Doc("R-C07.3", "no lossy or ambiguous conversion on the signing path")
	r.Doc("R-C07.4", "every success return of Verify passed the signature check")
	r.Doc("R-C07.5", "the loops that turn predecessor and reference lists into signed content process every element")
	hashReach := c.CG.Reach([]*Fn{p.FuncI("entry", "", "ToHashable").Root(), p.FuncI("entry", "", "toBuffer").Root()}, false)
	loopsComplete(c, r, "R-C07.5", func(fn *Fn) bool {
		if rootNamed(fn, "ToHashable", "toBuffer") {
			return true
		}
		_, ok := hashReach[fn.Root()]
		return ok && inPkgs(c.P, fn, "entry") && !ast.IsExported(fn.Root().Name[strings.LastIndex(fn.Root().Name, ".")+1:])
	}, "links after the point where the loop stops are not part of the signed bytes and can be replaced without invalidating the signature")
	th := p.FuncI("entry", "", "ToHashable")
	tb := p.FuncI("entry", "", "toBuffer")
	hashT := p.Named("iface", "Hashable")
	table := []struct{ getter, field string }{
		{"GetLogID", "ID"}, {"GetPayload", "Payload"}, {"GetNext", "Next"}, {"GetRefs", "Refs"}, {"GetV", "V"}, {"GetClock", "Clock"}, {"GetAdditionalData", "AdditionalData"},
	}
	// ---- ToHashable: stores into the Hashable literal
	sth := p.SSAFunc(th)
	stored := map[string]ssa.Value{}
	allInstrs(sth, false, func(ins ssa.Instruction) {
		if st, ok := ins.(*ssa.Store); ok {
			if f, fa := fieldOf(st.Addr); f != nil && namedOf(fa.X.Type()) == hashT {
				stored[f.Name()] = st.Val
			}
		}
	})
	hasGetter := func(v ssa.Value, getter string) bool {
		for x := range backSlice(v, nil) {
			if call, ok := x.(*ssa.Call); ok && call.Call.IsInvoke() && call.Call.Method.Name() == getter {
				if _, isParam := call.Call.Value.(*ssa.Parameter); isParam {
					return true
				}
			}
		}
		return false
	}
	for _, t := range table {
		v := stored[t.field]
		key := r.Key("R-C07.1", th, "hashable-field", t.field)
		if v == nil {
			r.Violate("R-C07.1", key, th.Body.Pos(), "the hashable view never sets "+t.field+": the "+t.getter+" part of the entry is not signed")
			continue
		}
		r.Check(hasGetter(v, t.getter), "R-C07.1", key, v.Pos(), "Hashable."+t.field+" is computed from "+t.getter+"()", "Hashable."+t.field+" is not computed from the entry's "+t.getter+"(): that part of the entry is not bound by the signature")
		if t.field == "Clock" {
			// the clock handed on is the entry's clock itself, or a copy whose id AND time both come from it
			direct := false
			x := v
			for k := 0; k < 4; k++ {
				switch y := x.(type) {
				case *ssa.MakeInterface:
					x = y.X
					continue
				case *ssa.ChangeType:
					x = y.X
					continue
				case *ssa.ChangeInterface:
					x = y.X
					continue
				}
				break
			}
			if call, ok := x.(*ssa.Call); ok && call.Call.IsInvoke() && call.Call.Method.Name() == "GetClock" {
				direct = true
			}
			gotID, gotTime := false, false
			for y := range backSlice(v, nil) {
				if call, ok := y.(*ssa.Call); ok && call.Call.IsInvoke() {
					if rc, ok := call.Call.Value.(*ssa.Call); ok && rc.Call.IsInvoke() && rc.Call.Method.Name() == "GetClock" {
						switch call.Call.Method.Name() {
						case "GetID":
							gotID = true
						case "GetTime":
							gotTime = true
						}
					}
				}
			}
			r.Check(direct || (gotID && gotTime), "R-C07.1", r.Key("R-C07.1", th, "hashable-clock-parts", ""), v.Pos(),
				"the clock handed to the signer is the entry's clock, or a copy built from that clock's own id and time",
				fmt.Sprintf("the clock handed to the signer is a copy that does not take both parts from the entry's clock (id from GetClock().GetID()=%v, time from GetClock().GetTime()=%v): the part taken from elsewhere (e.g. the key) is signed instead, and the clock's real id or time can be altered without invalidating the signature", gotID, gotTime))
		}
	}
	// ---- toBuffer: json.Marshal argument reads every field
	stb := p.SSAFunc(tb)
	var marshalArg ssa.Value
	var marshalCall *ssa.Call
	allInstrs(stb, false, func(ins ssa.Instruction) {
		if call, ok := ins.(*ssa.Call); ok {
			if cal := call.Call.StaticCallee(); cal != nil && cal.String() == "encoding/json.Marshal" {
				marshalArg, marshalCall = call.Call.Args[0], call
			}
		}
	})
	if marshalArg == nil {
		// the serialisation may sit in a first-party helper: the helper's argument that reaches json.Marshal there
		// stands for the Marshal argument, the helper call for the Marshal call
		allInstrs(stb, false, func(ins ssa.Instruction) {
			call, ok := ins.(*ssa.Call)
			if !ok || marshalArg != nil {
				return
			}
			cal := call.Call.StaticCallee()
			if cal == nil || cal.Pkg == nil || !p.firstParty(cal.Pkg.Pkg) || cal.Blocks == nil {
				return
			}
			allInstrs(cal, false, func(in2 ssa.Instruction) {
				c2, ok := in2.(*ssa.Call)
				if !ok || marshalArg != nil {
					return
				}
				if sc := c2.Call.StaticCallee(); sc == nil || sc.String() != "encoding/json.Marshal" {
					return
				}
				sl := backSlice(c2.Call.Args[0], nil)
				for i, prm := range cal.Params {
					if sl[prm] && i < len(call.Call.Args) {
						marshalArg, marshalCall = call.Call.Args[i], call
						return
					}
				}
			})
		})
	}
	if marshalArg == nil {
		r.Undecided("R-C07.1", r.Key("R-C07.1", tb, "marshal", ""), tb.Body.Pos(), "no json.Marshal call in toBuffer or in a helper it hands the signed value to")
		return
	}
	// the function result must be the Marshal result
	slice := backSlice(marshalArg, nil)
	readsField := func(name string) *ssa.UnOp {
		var first *ssa.UnOp // the earliest load in the source: the report does not depend on map iteration order
		for x := range slice {
			if u, ok := x.(*ssa.UnOp); ok && u.Op == token.MUL {
				if f, fa := fieldOf(u.X); f != nil && f.Name() == name && namedOf(fa.X.Type()) == hashT {
					if first == nil || u.Pos() < first.Pos() {
						first = u
					}
				}
			}
		}
		return first
	}
	for _, t := range table {
		key := r.Key("R-C07.1", tb, "signed-field", t.field)
		ld := readsField(t.field)
		if ld == nil {
			r.Violate("R-C07.1", key, marshalCall.Pos(), "Hashable."+t.field+" does not reach the bytes that are signed: changing that part of an entry leaves its signature valid")
			continue
		}
		if t.field == "Clock" {
			gotID, gotTime := false, false
			for x := range slice {
				if call, ok := x.(*ssa.Call); ok && call.Call.IsInvoke() && (derivesFromField(call.Call.Value, ldField(ld)) || boundToField(stb, call.Call.Value, ldField(ld))) {
					switch call.Call.Method.Name() {
					case "GetID":
						gotID = true
					case "GetTime":
						gotTime = true
					}
				}
			}
			r.Check(gotID && gotTime, "R-C07.1", key, ld.Pos(), "clock id and clock time both reach the signed bytes", fmt.Sprintf("the signed bytes do not contain both clock parts (id=%v, time=%v)", gotID, gotTime))
			continue
		}
		// … and it does so on every path: the statement that files the field in the marshalled value dominates the
		// Marshal call (additional data is filed only when there is some, which the property does not list)
		uncond, nfile := false, 0
		if t.field == "AdditionalData" {
			uncond = true
		}
		allInstrs(stb, false, func(ins ssa.Instruction) {
			var val ssa.Value
			switch x := ins.(type) {
			case *ssa.MapUpdate:
				val = x.Value
			case *ssa.Store:
				val = x.Val
			default:
				return
			}
			if !backSlice(val, nil)[ld] {
				return
			}
			nfile++
			if instrDominates(ins, marshalCall) {
				uncond = true
			}
		})
		if nfile == 0 {
			uncond = true // handed to Marshal directly
		}
		r.Check(uncond, "R-C07.1", key, ld.Pos(), "Hashable."+t.field+" flows into the json.Marshal argument on every path",
			"Hashable."+t.field+" is filed in the signed bytes only on some paths (under a condition on the entry): for the entries on the other paths that part can be changed without invalidating the signature")
	}
	// result of toBuffer is the marshal result
	retOK := false
	allInstrs(stb, false, func(ins ssa.Instruction) {
		if ret, ok := ins.(*ssa.Return); ok && len(ret.Results) == 2 {
			if backSlice(ret.Results[0], nil)[marshalCall] {
				retOK = true
			}
		}
	})
	r.Check(retOK, "R-C07.1", r.Key("R-C07.1", tb, "result", ""), marshalCall.Pos(), "toBuffer returns the marshalled bytes", "toBuffer does not return the result of json.Marshal")

	// ---- R-C07.2 element-wise lists in ToHashable
	// elementwise: ms is a fresh list with the length of the source list whose element i is computed from element i
	// of the source list
	elementwise := func(ms *ssa.MakeSlice, isSrc func(ssa.Value) bool, srcName string) (lenOK, elemOK bool, nst int, why string) {
		if lc, ok := ms.Len.(*ssa.Call); ok {
			if b, ok := lc.Call.Value.(*ssa.Builtin); ok && b.Name() == "len" && isSrc(lc.Call.Args[0]) {
				lenOK = true
			}
		}
		elemOK = true
		if refs := ms.Referrers(); refs != nil {
			for _, ref := range *refs {
				ia, ok := ref.(*ssa.IndexAddr)
				if !ok {
					continue
				}
				for _, u := range *ia.Referrers() {
					st, ok := u.(*ssa.Store)
					if !ok || st.Addr != ssa.Value(ia) {
						continue
					}
					nst++
					good := false
					for x := range backSlice(st.Val, nil) {
						if ld, ok := x.(*ssa.UnOp); ok && ld.Op == token.MUL {
							if src, ok := ld.X.(*ssa.IndexAddr); ok && src.Index == ia.Index {
								if isSrc(src.X) {
									good = true
								} else {
									why = "the source list is not " + srcName + " (a sort, set or other list sits in between)"
								}
							}
						}
					}
					if !good {
						elemOK = false
						if why == "" {
							why = "element i of the signed list is not computed from element i of " + srcName
						}
					}
				}
			}
		}
		return
	}
	for _, lf := range []struct{ getter, field string }{{"GetNext", "Next"}, {"GetRefs", "Refs"}} {
		key := r.Key("R-C07.2", th, "list", lf.field)
		out := stored[lf.field]
		isGetter := func(v ssa.Value) bool {
			g, ok := v.(*ssa.Call)
			return ok && g.Call.IsInvoke() && g.Call.Method.Name() == lf.getter
		}
		var ms *ssa.MakeSlice
		isSrc, srcName := isGetter, lf.getter+"()"
		switch o := out.(type) {
		case *ssa.MakeSlice:
			ms = o
		case *ssa.Extract:
			// the converting loop lives in a helper: cidsB58(e.GetNext()) — the helper's list parameter is the source
			if call, ok := o.Tuple.(*ssa.Call); ok {
				out = call
				_ = call
			}
		}
		if call, ok := out.(*ssa.Call); ok && ms == nil {
			if g := call.Call.StaticCallee(); g != nil && p.firstParty(calleePkg(g)) && len(g.Blocks) > 0 {
				var par *ssa.Parameter
				for ai, a := range call.Call.Args {
					if isGetter(a) && ai < len(g.Params) {
						par = g.Params[ai]
					}
				}
				if par != nil {
					allInstrs(g, false, func(ins ssa.Instruction) {
						if ret, ok := ins.(*ssa.Return); ok && len(ret.Results) > 0 {
							if cst, isC := ret.Results[len(ret.Results)-1].(*ssa.Const); len(ret.Results) == 1 || (isC && cst.IsNil()) {
								if m, ok := ret.Results[0].(*ssa.MakeSlice); ok {
									ms = m
								}
							}
						}
					})
					isSrc = func(v ssa.Value) bool { return v == ssa.Value(par) }
					srcName = "the list handed to " + g.Name() + " (" + lf.getter + "())"
				}
			}
		}
		if ms == nil {
			// the append form: the list handed to the Hashable literal (here, or in the helper that converts the
			// getter's list) starts empty and gets one element appended per element of the source, in order
			isGetterExpr := func(fn *Fn) func(ast.Expr) bool {
				return func(e ast.Expr) bool {
					call, ok := ast.Unparen(e).(*ast.CallExpr)
					if !ok {
						return false
					}
					se, ok := ast.Unparen(call.Fun).(*ast.SelectorExpr)
					return ok && se.Sel.Name == lf.getter && len(call.Args) == 0
				}
			}
			okApp, whyApp := false, "Hashable."+lf.field+" is not a freshly made list filled element by element"
			var litVal ast.Expr
			walkNoLit(th.Body, func(n ast.Node) bool {
				if cl, ok := n.(*ast.CompositeLit); ok && namedOf(p.TypeOf(th, cl)) == hashT {
					for _, el := range cl.Elts {
						if kv, ok := el.(*ast.KeyValueExpr); ok {
							if id, ok := kv.Key.(*ast.Ident); ok && id.Name == lf.field {
								litVal = kv.Value
							}
						}
					}
				}
				return true
			})
			if id, ok := ast.Unparen(litVal).(*ast.Ident); ok && litVal != nil {
				vo := p.ObjOf(th, id)
				if okA, w := appendCollects(p, th, vo, isGetterExpr(th)); okA {
					okApp = true
				} else {
					whyApp = "Hashable." + lf.field + " is not an element-wise image of " + lf.getter + "(): " + w
					// v, err := helper(e.GetF()): the helper builds the list
					walkNoLit(th.Body, func(n ast.Node) bool {
						as, ok := n.(*ast.AssignStmt)
						if !ok || len(as.Rhs) != 1 || okApp {
							return true
						}
						if lid, ok := ast.Unparen(as.Lhs[0]).(*ast.Ident); !ok || p.ObjOf(th, lid) != vo {
							return true
						}
						call, ok := ast.Unparen(as.Rhs[0]).(*ast.CallExpr)
						if !ok {
							return true
						}
						cf := p.Callee(th, call)
						if cf == nil || p.ByObj[cf] == nil {
							return true
						}
						h := p.ByObj[cf]
						for ai, a := range call.Args {
							if !isGetterExpr(th)(a) {
								continue
							}
							po := paramObjAny(h, ai)
							walkNoLit(h.Body, func(m ast.Node) bool {
								rs, ok := m.(*ast.ReturnStmt)
								if !ok || len(rs.Results) == 0 {
									return true
								}
								if rid, ok := ast.Unparen(rs.Results[0]).(*ast.Ident); ok && rid.Name != "nil" {
									if okH, wH := appendCollects(p, h, p.ObjOf(h, rid), func(e ast.Expr) bool {
										id, ok := ast.Unparen(e).(*ast.Ident)
										return ok && p.ObjOf(h, id) == po
									}); okH {
										okApp = true
									} else {
										whyApp = "the list built by " + h.Name + " is not an element-wise image of its argument: " + wH
									}
								}
								return true
							})
						}
						return true
					})
				}
			}
			r.Check(okApp, "R-C07.2", key, th.Body.Pos(), "the signed "+lf.field+" list starts empty and gets one element appended per element of "+lf.getter+"(), in order", whyApp)
			continue
		}
		lenOK, elemOK, nst, why := elementwise(ms, isSrc, srcName)
		if nst == 0 {
			// the list is filled by a helper it is handed to together with the getter's list:
			// fill(dst, e.GetF()) storing dst[i] from src[i]
			if refs := ms.Referrers(); refs != nil {
				for _, ref := range *refs {
					call, ok := ref.(*ssa.Call)
					if !ok {
						continue
					}
					g := call.Call.StaticCallee()
					if g == nil || !p.firstParty(calleePkg(g)) || len(g.Blocks) == 0 {
						continue
					}
					di, si := -1, -1
					for ai, a := range call.Call.Args {
						if a == ssa.Value(ms) {
							di = ai
						}
						if isSrc(a) {
							si = ai
						}
					}
					if di < 0 || si < 0 || di >= len(g.Params) || si >= len(g.Params) {
						continue
					}
					dstP, srcP := g.Params[di], g.Params[si]
					elemOK, nst, why = true, 0, ""
					if drefs := dstP.Referrers(); drefs != nil {
						for _, dr := range *drefs {
							ia, ok := dr.(*ssa.IndexAddr)
							if !ok {
								continue
							}
							for _, u := range *ia.Referrers() {
								st, ok := u.(*ssa.Store)
								if !ok || st.Addr != ssa.Value(ia) {
									continue
								}
								nst++
								good := false
								for x := range backSlice(st.Val, nil) {
									if ld, ok := x.(*ssa.UnOp); ok && ld.Op == token.MUL {
										if src, ok := ld.X.(*ssa.IndexAddr); ok && src.Index == ia.Index && src.X == ssa.Value(srcP) {
											good = true
										}
									}
									// `for i, c := range src`: the element is extracted from the range iterator's tuple
								}
								if !good {
									// range-with-value form: element i comes from the iteration over src whose index is ia.Index
									good = rangeElemOf(st.Val, ia.Index, srcP)
								}
								if !good {
									elemOK = false
									why = "element i of the list filled by " + g.Name() + " is not computed from element i of its source"
								}
							}
						}
					}
				}
			}
		}
		r.Check(lenOK && elemOK && nst > 0, "R-C07.2", key, ms.Pos(),
			"the signed "+lf.field+" list has the getter's length and element i comes from element i",
			fmt.Sprintf("the signed %s list is not an element-wise image of %s() (length-from-getter=%v, element-wise=%v): %s — duplicates, order or membership of links are not bound by the signature", lf.field, lf.getter, lenOK, elemOK, why))
	}

	// ---- R-C07.3 conversions on the path
	type conv struct {
		v    ssa.Value
		what string
		ok   bool
	}
	var convs []conv
	for x := range slice {
		switch y := x.(type) {
		case *ssa.Convert:
			from, to := y.X.Type().Underlying(), y.Type().Underlying()
			if sl, ok := from.(*types.Slice); ok {
				if b, ok := sl.Elem().Underlying().(*types.Basic); ok && b.Kind() == types.Byte {
					if tb2, ok := to.(*types.Basic); ok && tb2.Info()&types.IsString != 0 {
						convs = append(convs, conv{y, "string([]byte) conversion feeding encoding/json (invalid UTF-8 bytes all become U+FFFD)", false})
					}
				}
			}
			// numeric conversions that merge values: integer → float, integer → narrower integer, integer → string (rune)
			if fb, ok := from.(*types.Basic); ok && fb.Info()&types.IsInteger != 0 {
				if tb2, ok := to.(*types.Basic); ok {
					switch {
					case tb2.Info()&types.IsFloat != 0:
						convs = append(convs, conv{y, "integer→" + tb2.Name() + " conversion (neighbouring integers beyond 2^53 round to one value)", false})
					case tb2.Info()&types.IsString != 0:
						convs = append(convs, conv{y, "integer→string (rune) conversion (every invalid code point becomes U+FFFD)", false})
					case tb2.Info()&types.IsInteger != 0 && types.SizesFor("gc", "amd64").Sizeof(tb2) < types.SizesFor("gc", "amd64").Sizeof(fb):
						convs = append(convs, conv{y, "narrowing " + fb.Name() + "→" + tb2.Name() + " conversion (high bits dropped)", false})
					}
				}
			}
		case *ssa.BinOp:
			// arithmetic that merges values of a signed integer field
			if b, ok := y.Type().Underlying().(*types.Basic); ok && b.Info()&types.IsInteger != 0 {
				switch y.Op {
				case token.REM, token.QUO, token.AND, token.OR, token.SHR, token.SHL, token.AND_NOT, token.MUL:
					convs = append(convs, conv{y, "arithmetic " + y.Op.String() + " on a signed value (different inputs give one result)", false})
				}
			}
		case *ssa.Call:
			if cal := y.Call.StaticCallee(); cal != nil {
				full := cal.String()
				switch {
				case strings.HasSuffix(full, "hex.EncodeToString"), strings.Contains(full, "base64.Encoding).EncodeToString"), strings.Contains(full, "multibase"),
					strings.HasPrefix(full, "strconv.Itoa"), strings.HasPrefix(full, "strconv.FormatInt"), strings.HasPrefix(full, "strconv.FormatUint"):
					convs = append(convs, conv{y, "injective encoder " + cal.Name(), true})
				case cal == marshalCall.Call.StaticCallee():
				default:
					// a library function applied to a signed value and feeding the signed bytes, outside the table of
					// injective encoders: the rule cannot see that it keeps different inputs apart
					if pkg := calleePkg(cal); pkg != nil && !p.firstParty(pkg) && len(y.Call.Args) > 0 && cal.Signature.Results().Len() > 0 {
						convs = append(convs, conv{y, "call of " + full + " on the signing path, not in the table of injective encoders", false})
					}
				}
			}
		}
	}
	sort.Slice(convs, func(i, j int) bool { return convs[i].v.Pos() < convs[j].v.Pos() })
	for _, cv := range convs {
		key := r.Key("R-C07.3", tb, "conversion", cv.what[:minIntC(len(cv.what), 24)])
		if cv.ok {
			r.Hold("R-C07.3", key, cv.v.Pos(), true, cv.what)
		} else {
			r.Violate("R-C07.3", key, cv.v.Pos(), "lossy step on the signing path: "+cv.what+" — two different payloads can carry the same valid signature")
		}
	}
	// ambiguous encodings: a phi on the path merging values produced by different converters of the same field
	for x := range slice {
		phi, ok := x.(*ssa.Phi)
		if !ok {
			continue
		}
		kinds := map[string]bool{}
		for _, e := range phi.Edges {
			k := "plain"
			switch y := e.(type) {
			case *ssa.Convert:
				k = "convert"
			case *ssa.Call:
				if cal := y.Call.StaticCallee(); cal != nil {
					k = cal.Name()
				}
			}
			kinds[k] = true
		}
		if len(kinds) > 1 && isStringish(phi.Type()) {
			var ks []string
			for k := range kinds {
				ks = append(ks, k)
			}
			sort.Strings(ks)
			r.Violate("R-C07.3", r.Key("R-C07.3", tb, "ambiguous-encoding", ""), phi.Pos(), fmt.Sprintf("a signed field reaches json.Marshal through alternative encodings %v chosen at run time: an input in one encoding collides with a different input in the other", ks))
		}
	}

	// … and a first-party helper on the way into json.Marshal whose returns render its argument in different ways
	// (a conversion on one path, an encoder on another): the two renderings share one output domain
	{
		seenHelper := map[*ssa.Function]bool{}
		for x := range slice {
			call, ok := x.(*ssa.Call)
			if !ok {
				continue
			}
			g := call.Call.StaticCallee()
			if g == nil || g.Blocks == nil || seenHelper[g] || !p.firstParty(calleePkg(g)) || !isStringish(call.Type()) || g == stb || g == sth {
				continue
			}
			seenHelper[g] = true
			kinds := map[string]bool{}
			allInstrs(g, false, func(ins ssa.Instruction) {
				ret, ok := ins.(*ssa.Return)
				if !ok || len(ret.Results) == 0 {
					return
				}
				var vals []ssa.Value
				if ph, ok := ret.Results[0].(*ssa.Phi); ok {
					vals = ph.Edges
				} else {
					vals = []ssa.Value{ret.Results[0]}
				}
				for _, v := range vals {
					k := "plain"
					switch y := v.(type) {
					case *ssa.Convert:
						k = "a conversion"
					case *ssa.Call:
						if cal := y.Call.StaticCallee(); cal != nil {
							k = cal.Name()
						}
					case *ssa.Const:
						k = "a constant"
					}
					kinds[k] = true
				}
			})
			delete(kinds, "a constant")
			if len(kinds) > 1 {
				var ks []string
				for k := range kinds {
					ks = append(ks, k)
				}
				sort.Strings(ks)
				r.Violate("R-C07.3", r.Key("R-C07.3", tb, "ambiguous-encoding", g.Name()), call.Pos(), fmt.Sprintf("a signed field reaches json.Marshal through %s, which renders it in alternative ways %v chosen at run time: an input rendered one way collides with a different input rendered the other way, and both carry the same valid signature", g.Name(), ks))
			}
		}
	}

	// the same on the way into the hashable view: a first-party helper between a getter and its Hashable field that
	// hands back its argument on one path and something it built on another is two encodings chosen at run time
	{
		var names []string
		for n := range stored {
			names = append(names, n)
		}
		sort.Strings(names)
		for _, n := range names {
			for x := range backSlice(stored[n], nil) {
				call, ok := x.(*ssa.Call)
				if !ok || call.Parent() != sth {
					continue
				}
				g := call.Call.StaticCallee()
				isBytes := false
				if sl, ok := call.Type().Underlying().(*types.Slice); ok {
					if b, ok := sl.Elem().Underlying().(*types.Basic); ok && b.Kind() == types.Byte {
						isBytes = true
					}
				}
				if g == nil || g.Blocks == nil || !p.firstParty(calleePkg(g)) || !(isStringish(call.Type()) || isBytes) {
					continue
				}
				identity, built := false, false
				allInstrs(g, false, func(ins ssa.Instruction) {
					ret, ok := ins.(*ssa.Return)
					if !ok || len(ret.Results) == 0 {
						return
					}
					v := ret.Results[0]
					for k := 0; k < 4; k++ {
						if ct, ok := v.(*ssa.ChangeType); ok {
							v = ct.X
							continue
						}
						break
					}
					if _, isParam := v.(*ssa.Parameter); isParam {
						identity = true
					} else {
						built = true
					}
				})
				if identity && built {
					r.Violate("R-C07.3", r.Key("R-C07.3", th, "ambiguous-encoding", n), call.Pos(), fmt.Sprintf("Hashable.%s goes through %s, which hands its argument back unchanged on one path and a re-encoded value on another: an input in one form collides with a different input in the other, and both carry the same valid signature", n, g.Name()))
				}
			}
		}
	}

	r.Doc("R-C07.7", "under a link key Verify signs Entry.Copy(): the copy reproduces every signed field from the same field of the original and from nothing else (no state shared between the predecessor and reference lists)")
	entryCopyFieldwise(c, r, "R-C07.7")
	r.Doc("R-C07.9", "what is signed and verified is the entry as it is: nothing on the signing path reorders or rewrites a link list, payload, key or signature through a slice a getter handed out (adopted from C05: a codec that sorts the links of the copy it seals makes every reordering of the links verify)")
	importRules(c, r, "C05", []string{"R-C05.13"}, "R-C07.9")
	r.Doc("R-C07.10", "the signed bytes never pass through a generic JSON decode: no json.Unmarshal / Decoder.Decode into an interface{} (or a map or slice of them) on the path that builds them — numbers decoded that way become float64, so clock times that differ beyond 53 bits sign the same bytes")
	{
		tbf := p.FuncI("entry", "", "toBuffer")
		scope := c.CG.Reach([]*Fn{tbf, p.FuncI("entry", "", "ToHashable")}, false)
		var untyped func(t types.Type, d int) bool
		untyped = func(t types.Type, d int) bool {
			if d > 4 || t == nil {
				return false
			}
			switch u := t.Underlying().(type) {
			case *types.Interface:
				return u.NumMethods() == 0
			case *types.Pointer:
				return untyped(u.Elem(), d+1)
			case *types.Map:
				return untyped(u.Elem(), d+1)
			case *types.Slice:
				return untyped(u.Elem(), d+1)
			}
			return false
		}
		nfn := 0
		var fnl []*Fn
		for fn := range scope {
			fnl = append(fnl, fn)
		}
		sort.Slice(fnl, func(i, j int) bool { return fnl[i].Name < fnl[j].Name })
		for _, fn := range fnl {
			if fn.Body == nil {
				continue
			}
			nfn++
			bad := ""
			var badPos token.Pos
			walkNoLit(fn.Body, func(n ast.Node) bool {
				call, ok := n.(*ast.CallExpr)
				if !ok || bad != "" {
					return true
				}
				cf := p.Callee(fn, call)
				if cf == nil || cf.Pkg() == nil || cf.Pkg().Path() != "encoding/json" {
					return true
				}
				var target ast.Expr
				switch {
				case cf.Name() == "Unmarshal" && len(call.Args) == 2:
					target = call.Args[1]
				case cf.Name() == "Decode" && len(call.Args) == 1:
					target = call.Args[0]
				}
				if target != nil && untyped(p.TypeOf(fn, target), 0) {
					bad, badPos = "json."+cf.Name()+" into `"+types.ExprString(target)+"` ("+p.TypeOf(fn, target).String()+")", call.Pos()
				}
				return true
			})
			pos := fn.Body.Pos()
			if bad != "" {
				pos = badPos
			}
			r.Check(bad == "", "R-C07.10", r.Key("R-C07.10", fn, "no-generic-decode", ""), pos,
				"nothing on the path that builds the signed bytes is decoded into an untyped value",
				bad+" on the path that builds the signed bytes: every number comes back as a float64, so a clock time above 2^53 is rounded — entries whose times differ in the low bits sign (and verify) the same bytes")
		}
		r.Floor("R-C07.10", "functions that build the signed bytes", nfn, 2)
	}
	r.Doc("R-C07.11", "a link is identified by its whole identifier: nothing takes the multihash, the version or the codec of a CID alone (`Hash()`, `Prefix()`, `Version()`, `Type()`) — two different identifiers over one multihash would count as one link, and the copy that is signed under a link key would lose a link the entry still carries")
	{
		nid, npart := 0, 0
		for _, fn := range p.Fns {
			if fn.Orig != nil || fn.Body == nil || !p.firstParty(fn.Pkg.Types) || strings.HasSuffix(fn.Pkg.PkgPath, "/test") {
				continue
			}
			fn := fn
			walkNoLit(fn.Body, func(n ast.Node) bool {
				call, ok := n.(*ast.CallExpr)
				if !ok {
					return true
				}
				cf := p.Callee(fn, call)
				if cf == nil || cf.Pkg() == nil || cf.Pkg().Path() != "github.com/ipfs/go-cid" {
					return true
				}
				sig, ok := cf.Type().(*types.Signature)
				if !ok || sig.Recv() == nil {
					return true
				}
				if nt := namedOf(sig.Recv().Type()); nt == nil || nt.Obj().Name() != "Cid" {
					return true
				}
				switch cf.Name() {
				case "String", "KeyString", "Bytes", "Encode", "StringOfBase":
					nid++
				case "Hash", "Prefix", "Version", "Type":
					npart++
					r.Violate("R-C07.11", r.Key("R-C07.11", fn, "partial-identifier", cf.Name()), call.Pos(),
						"`"+types.ExprString(call)+"` takes only a part of the identifier: links that differ in the rest (another version or codec over the same multihash) are told apart by nothing that is built on it")
				}
				return true
			})
		}
		if npart == 0 {
			r.Hold("R-C07.11", r.Key("R-C07.11", nil, "whole-identifiers", ""), token.NoPos, true, fmt.Sprintf("%d renderings of whole identifiers, none of a part", nid))
		}
		r.Floor("R-C07.11", "renderings of whole CIDs (String, KeyString, Bytes, Encode)", nid, 20)
	}
	r.Doc("R-C07.13", "a codec's PreSign hands back the entry it was given unless its link key is set (the bytes a keyless codec signs and verifies are those of the entry itself, not of a copy: copying de-duplicates the link lists)")
	preSignHandsBackWhatItGot(c, r, "R-C07.13")
	r.Doc("R-C07.12", "nothing is removed from the value that is signed: no delete on the map handed to the serialiser on the signing path (a member dropped for some entries — the references of older versions — can be changed in them without invalidating the signature)")
	{
		ndel := 0
		for fn := range hashReach {
			if fn.Body == nil {
				continue
			}
			fn := fn
			walkNoLit(fn.Body, func(n ast.Node) bool {
				if call, ok := n.(*ast.CallExpr); ok && p.Builtin(fn, call) == "delete" {
					ndel++
					r.Violate("R-C07.12", r.Key("R-C07.12", fn, "delete", types.ExprString(call.Args[0])), call.Pos(),
						"`"+types.ExprString(call)+"` removes a member from the value that is signed: for the entries on this path that part is not bound by the signature")
				}
				return true
			})
		}
		if ndel == 0 {
			r.Hold("R-C07.12", r.Key("R-C07.12", nil, "nothing-removed", ""), token.NoPos, true, "no delete on the signing path")
		}
	}
	r.Doc("R-C07.8", "the clock reaches the signed copy as it is: the constructor stores its arguments unchanged, the copy takes both parts, the getters return their field")
	clockValueObject(c, r, "R-C07.8")
	verifySigDominates(c, r, "R-C07.4")
	// ---- R-C07.6: verification keeps nothing between calls
	r.Doc("R-C07.6", "the verification closure (Verify, the signed-bytes builders, key parsing in the identity provider, the keystore's check) keeps no state between calls: a remembered verdict or a remembered parsed key lets a later, different input be checked against the earlier one")
	{
		vroot := p.FuncI("entry", "Entry", "Verify").Root()
		nver := 0
		for fn := range c.CG.Reach([]*Fn{vroot}, false) {
			if !p.firstParty(fn.Pkg.Types) || !(inPkgs(p, fn, "entry", "identityprovider", "keystore")) {
				continue
			}
			nver++
			detScan(c, r, "R-C07.6", fn)
		}
		r.Floor("R-C07.6", "functions in the verification closure", nver, 4)
	}
}

func isStringish(t types.Type) bool {
	b, ok := t.Underlying().(*types.Basic)
	return ok && b.Info()&types.IsString != 0
}

func ldField(u *ssa.UnOp) *types.Var {
	f, _ := fieldOf(u.X)
	return f
}

// verifySigDominates: every success return of Entry.Verify is dominated by the true result of the
// public-key signature check performed in this call.
func verifySigDominates(c *Ctx, r *Report, rule string) {
	sigCheckDominates(c, r, rule, c.P.FuncI("entry", "Entry", "Verify"))
}

// sigCheckDominates: every success return of verify passed the true result of a crypto signature check made by
// this very call.
func sigCheckDominates(c *Ctx, r *Report, rule string, verify *Fn) {
	p := c.P
	okVars := map[types.Object]bool{}
	walkNoLit(verify.Body, func(n ast.Node) bool {
		if as, ok := n.(*ast.AssignStmt); ok && len(as.Rhs) == 1 && len(as.Lhs) == 2 {
			if call, ok := ast.Unparen(as.Rhs[0]).(*ast.CallExpr); ok {
				if cf := p.Callee(verify, call); cf != nil && cf.Name() == "Verify" && cf.Pkg() != nil && strings.Contains(cf.Pkg().Path(), "crypto") {
					if id, ok := as.Lhs[0].(*ast.Ident); ok {
						okVars[p.ObjOf(verify, id)] = true
					}
				}
			}
		}
		return true
	})
	r.Floor(rule, "signature checks in "+verify.Name, len(okVars), 1)
	vf := &Flow{P: p, Fn: verify, Entry: Facts{}}
	vf.Edge = func(cond ast.Expr, taken bool, f Facts) {
		for _, a := range splitCond(cond, taken) {
			if id, ok := ast.Unparen(a.E).(*ast.Ident); ok && a.Truth && okVars[p.ObjOf(verify, id)] {
				f["sigOK"] = true
			}
		}
	}
	vf.Run()
	nsucc := 0
	vf.Exits(func(_ *cfgBlk, ret *ast.ReturnStmt, at Facts) {
		if ret == nil {
			return
		}
		if isNil, hasErr := errResultIsNil(p, verify, ret); hasErr && isNil {
			nsucc++
			r.Check(at["sigOK"], rule, r.Key(rule, verify, "success-return", ""), ret.Pos(),
				"Verify succeeds only after the public-key signature check returned true on this call",
				"Verify can return success on a path that does not pass the signature check of this call (a cached or short-circuited verdict): an entry altered after an earlier successful verification is accepted")
		}
	})
	r.Floor(rule, "success returns of "+verify.Name, nsucc, 1)
}

// boundToField: v is the parameter of a first-party helper, and a call of that helper in fn hands in, for that
// parameter, a value that derives from the field.
func boundToField(fn *ssa.Function, v ssa.Value, field *types.Var) bool {
	q, ok := v.(*ssa.Parameter)
	if !ok || q.Parent() == nil || field == nil {
		return false
	}
	idx := -1
	for i, pq := range q.Parent().Params {
		if pq == q {
			idx = i
		}
	}
	found := false
	allInstrs(fn, true, func(ins ssa.Instruction) {
		if call, ok := ins.(*ssa.Call); ok && call.Call.StaticCallee() == q.Parent() && idx >= 0 && idx < len(call.Call.Args) {
			if derivesFromField(call.Call.Args[idx], field) {
				found = true
			}
		}
	})
	return found
}

// rangeElemOf: val derives from the element of a `for i, c := range src` iteration whose index is idx.
func rangeElemOf(val ssa.Value, idx ssa.Value, src ssa.Value) bool {
	for x := range backSlice(val, nil) {
		// go/ssa lowers range over a slice to an index loop: the element is src[i] loaded through IndexAddr
		if ld, ok := x.(*ssa.UnOp); ok && ld.Op == token.MUL {
			if ia, ok := ld.X.(*ssa.IndexAddr); ok && ia.X == src {
				if ia.Index == idx {
					return true
				}
				// the loop index and the store index are the same φ+1 chain
				if b1, ok := ia.Index.(*ssa.BinOp); ok {
					if b2, ok := idx.(*ssa.BinOp); ok && b1 == b2 {
						return true
					}
				}
			}
		}
	}
	return false
}
