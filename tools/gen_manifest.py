#!/usr/bin/env python3
"""Writes /verif/MANIFEST.json from the table below (one entry per claimed property) and validates it."""
import json, sys

CLAIMED = {
 "C11": dict(technique="static analysis: must-pass-through dataflow over go/cfg of the fetch worker and dispatcher, lockset analysis, context-propagation rule over the call graph",
   text="Decides structural necessary conditions of fault-tolerant, terminating fetching on every path of the current source: worker accounting (slot release before the mutex, counter decrement and cond signal under the mutex before every exit), cond waits in loops under the Locker, the single exclude-and-mark gate into the queue, confinement of fetch state to the process mutex, propagation of the deadline context to every blocking call. It does not decide exactness of the fetched set.",
   note="Trusted: go/types, go/cfg, the rule tables in checker/c11.go; sync/semaphore contracts. Not covered: behaviour of the block store, exactness/duplicate-freedom of results as data.", ref="§4 C11"),
 "C13": dict(technique="static analysis: lockset + lock-order + fork/join dataflow over go/cfg with types.Object instance identity, requirements propagated over the call graph",
   text="Decides the lock discipline that makes a shared log atomic for every schedule: every guarded field access holds the owning lock in sufficient mode (helper requirements propagated to all call sites and entry points), acquire/release pairing on every exit, sibling-goroutine writes under an own lock, single critical section per mutator, no channel operation under the log lock, acyclic lock order, immutable configuration, access-control context confined to the critical section. This is the classical sufficient discipline for race freedom; it does not decide linearizability of results.",
   note="Trusted: go/types, go/cfg, guard table in checker/c13.go (confirmed by reading). Assumes clients use the log through its methods; races inside dependencies and callbacks into the log from user access controllers are not covered.", ref="§4 C13"),
 "C14": dict(technique="static analysis: lock-order graph with instance identity (self-edge on distinct IPFSLog instances), dominance of the heads read over the entries read in Join",
   text="Decides two necessary conditions of deadlock-free, snapshot-consistent merging from a live log on every path: no call chain acquires another log's lock while one log lock is held, and the source is read once per kind with heads before entries. It does not decide that the merged sets equal a real instant of the source.",
   note="Trusted: go/types, go/cfg, CHA restricted to first-party implementers. Assumes the source log is append-only between the two reads.", ref="§4 C14"),
 "C15": dict(technique="static analysis: linear bound prover over go/ssa path facts (Fourier-Motzkin) for amount-tainted slices, must-pass-through close(output) on success returns, may-reach rule for failed bound lookups",
   text="Decides for all values of the amount and every combination of bounds, on every path of Iterator: amount-tainted slice bounds are in range, close(output) precedes every success return, a failed bound lookup only reaches error returns, no send under the log lock. It does not decide which entries are emitted.",
   note="Trusted: go/ssa, go/cfg, the prover in checker/lenprove.go (controls run on every check). Integer overflow ignored.", ref="§4 C15"),
 "C16": dict(technique="static analysis: linear bound prover over go/ssa path facts for the size-tainted slice; SSA backward data slice relating the stored index and heads to one suffix slice",
   text="Decides for all values of Join's size argument that the truncating slice is in range and that the truncated index and heads derive from the same suffix slice of the post-merge linearisation. It does not decide that the suffix is the newest n entries for every DAG.",
   note="Trusted: go/ssa, the prover in checker/lenprove.go. Integer overflow ignored.", ref="§4 C16"),
 "C10": dict(technique="static analysis: linear length prover over go/ssa path facts with summaries of the slice helpers (Fourier-Motzkin), SSA dominance for sort-before-trim, suffix-only analysis of the trim helper",
   text="Decides for all values of the caller's Length and every fetch result that three loaders hand on at most max(Length, k) entries on every path with a non-negative limit, that the trimmed list is the ascending-sorted one and the trim keeps a suffix, and that the slice helpers never go out of range. It does not decide which entries the fetcher admits nor exactness.",
   note="Trusted: go/ssa, checker/lenprove.go (controls on every run). fromEntry's recombination is listed, not armed. Integer overflow ignored.", ref="§4 C10"),
}
# -- add further claimed properties as CLAIMED["Cxx"] = dict(...) below this line --
CLAIMED["C01"] = dict(technique="static analysis: determinism scan over the call-graph closure of merge and linearisation, dominance of the equal-id edge, SSA backward slices with control dependence (post-dominator based) for the inputs of the merged head set",
   text="Decides structural necessary conditions of convergence on every path: the merge/linearisation closure has no source of nondeterminism, a foreign-id log changes nothing, the merged heads depend on all four inputs a correct merge needs (both head sets, the new items' predecessor links, the destination's predecessor index), the apply phase is unconditional, and map copies/merges never alias or mutate their sources. It does not decide the merge algebra itself.",
   note="Trusted: go/ssa, go/cfg, call graph over first-party implementers. Over-approximate data dependence (may miss a violation, never invents one).", ref="§4 C01")
CLAIMED["C02"] = dict(technique="static analysis: structural rules on the unreferenced-entry scan (loop/guard structure of FindHeads over go/cfg), SSA field-dependence of stored heads (with control dependence), object identity of the single new head, in-place-mutation scan of the heads field",
   text="Exactness of the head set for every DAG is not decided. Decides the structural necessary conditions specific to head maintenance on every path: FindHeads indexes every predecessor link unconditionally and returns an entry only on the negative lookup of its own key; Append makes exactly the created entry the head in one critical section; merged heads depend on both head sets, the new items' links and the destination's predecessor index; construction without heads derives them from the stored entries; heads are replaced, never edited in place; the bounded merge recomputes heads over the truncated list.",
   note="Trusted: go/cfg, go/ssa. These pieces are necessary conditions; their composition to 'exactly the unreferenced entries' is not proved.", ref="§4 C02 (as built)")
CLAIMED["C09"] = dict(technique="static analysis: SSA field-dependence chains from manifest to fetcher to snapshot to constructor, guard-structure rules on the fetcher's no-limit path, dominance of a tested limit over every trim",
   text="Equality of a rebuilt log with its source is not decided. Decides the structural necessary conditions specific to reconstruction on every path: the manifest carries the log's id and the hashes of its heads; each loader starts the fetch from the published/supplied heads and hands the fetch result and manifest id to NewLog; with no limit the fetcher queues every predecessor and reference of every fetched entry and admits every fetched entry; loaders trim only after a tested non-negative limit.",
   note="Trusted: go/cfg, go/ssa. Which blocks a fetch retrieves, and arrival-order independence, are run-time facts outside this check.", ref="§4 C09 (as built)")
CLAIMED["C03"] = dict(technique="static analysis: AST provenance of the comparator argument of every Sort call in log methods, may-dataflow over go/cfg with flag correlation for re-sort-before-pop, visited-set gate and end-hash stop in traverse",
   text="Decides on every path that the linearisation is driven by the configured comparator, that the work stack is re-sorted after every growth before the next pop, that predecessors enter the stack only through the visited gate and are then marked, that the end hash stops the walk, and that values() reads the log's current heads and index. It does not decide completeness/causality of the walk for every DAG.",
   note="Trusted: go/cfg, go/types.", ref="§4 C03")
CLAIMED["C04"] = dict(technique="static analysis: three-point monotone lattice {none, >=, >} over go/ssa with max-like helpers verified by the linear prover and accumulate-max loop recognition; AST object identity and SSA field dependence for head/insert/return and the new entry's fields; linear prover for the reference budget",
   text="Decides on every path: identity and clock are changed together, the appended entry's clock time is strictly above the maximum head time (or above the old clock with all other clock stores covering their heads), the created entry is the single new head / the inserted / the returned entry, its predecessors, clock and id derive from the log's current state, and the reference budget is proved <= the requested pointer count. It does not decide that next equals the head set nor that references lie in the causal past.",
   note="Trusted: go/ssa, checker/lenprove.go and c04.go's lattice. Remote clocks are assumed to exceed their predecessors'.", ref="§4 C04")
CLAIMED["C05"] = dict(technique="static analysis: freshness must-dataflow over go/cfg with caller propagation over the call graph for every mutating entry/clock method call, index-growth and accessor-leak rules on the AST",
   text="Decides on every path that log operations mutate only fresh (unshared) entries and clocks, that the ordered index is never shrunk or replaced outside nil-initialisation and the bounded merge, that merge candidates are absent keys, and that exported accessors return copies of the index. It does not decide byte-identity under a dishonest store nor the subsequence relation of successive Values().",
   note="Trusted: go/cfg, go/types, call graph. A mutation under a never-assigned guard field is recorded as dead-guarded.", ref="§4 C05")
CLAIMED["C07"] = dict(technique="static analysis: SSA backward slices from the json.Marshal argument and from the Hashable literal (field coverage), element-wise list image check, injectivity table for conversions on the signing path, dominance of the signature check over Verify's success returns",
   text="Decides on every path that every signed part reaches the signed bytes, that link lists are signed element-wise from the getter's own result, that no lossy or ambiguous conversion lies on the signing path (reports the known []byte->string->encoding/json collapse as a known finding), and that Verify only succeeds after the signature check of that call. It does not decide unforgeability.",
   note="Trusted: go/ssa; encoding/json injective on valid UTF-8. One open known finding (payload UTF-8 coercion).", ref="§4 C07")
CLAIMED["C08"] = dict(technique="static analysis: table extraction and sibling agreement (atlas builder chains vs struct types, writer literals vs reader selectors with codec pairs), determinism/statelessness scan over the encode and decode closures, dominance rules for hash handling",
   text="Decides agreement between the atlas and the structs, between every writer and reader field with matching codec pairs, absence of order-/time-/history-dependent constructs on the encode and decode closures (including pooled or memoised scratch state), canonical key sorting, sorted manifest heads, and that the hash is never part of the encoded view and is set from the requested identifier. It does not decide byte-exactness of third-party encoders or the pinned vectors.",
   note="Trusted: go/types, go/cfg, call graph. Third-party encoders trusted.", ref="§4 C08")
CLAIMED["C17"] = dict(technique="static analysis: dominance facts over go/cfg (write-before-publish in Append/CreateEntryWithIO, checked synchronous Dag().Add before every success return of each IO.Write), call-graph who-may-call rule for Dag().Add",
   text="Decides the side-effect order that crash safety rests on, for every path: memory is updated and the entry returned only on the success edge of the block write, every IO.Write returns an identifier only after a direct, checked Dag().Add (a failed pin cannot reach a success return), only IO.Write implementations add blocks, and the manifest writer publishes ToJSONLog() of its own log. It does not decide that predecessors are in the store nor durability of the store.",
   note="Trusted: go/cfg, call graph restricted to first-party implementers, coreiface contracts (Add is synchronous).", ref="§4 C17")
CLAIMED["C18"] = dict(technique="static analysis: path-correlated may-dataflow over go/cfg for the must-clear rule, sibling/table agreement of sealed/restored/cleared field sets extracted from the AST and the wire struct's type, SSA backward slice for PreSign reaching hash and write",
   text="Decides on every path that the clear link lists are emptied whenever the encrypted side field is written, that PreSign/DecryptLinks/ToJsonableEntry agree on the set of link fields (all []cid.Cid fields of the wire struct) and on the additional-data keys, that the PreSign result is what is hashed and written and links stay in clear only without key or links, and that failed opens only reach error returns. It does not decide secrecy of the sealed bytes.",
   note="Trusted: go/cfg, go/ssa, go/types. Secretbox and nonce uniqueness are not covered.", ref="§4 C18")
CLAIMED["C19"] = dict(level="proof", technique="static analysis: abstract interpretation of the comparators' SSA over the finite domain of order-relation patterns (27 sign triples, overflow fork on time subtraction), followed by exhaustive enumeration of the order axioms (27 pairs, 2197 triples)",
   text="Full decision of the stated order laws from the current source: because the comparators touch entries only through three three-way comparisons, their behaviour on all inputs is a finite table computed by an abstract interpreter on every run; irreflexivity/totality, antisymmetry, transitivity (all 2197 consistent triple patterns), causality, default==hash-tiebreak off ties, NoZeroes, first==-last, clock comparison laws and Sort's less function are then checked exhaustively. Every obligation must be discharged; an instruction outside the interpreter's vocabulary fails the check.",
   note="Assumes *entry.Entry/*entry.LamportClock are the only implementers (asserted on every run), distinct entries have distinct hashes, sort.SliceStable's contract, and that a non-wrapped time distance is never MinInt (|time| < 2^62) so that FirstWriteWins' negation is exact. Trusted base: checker/cmp.go, go/ssa.", ref="§4 C19")
CLAIMED["C06"] = dict(technique="static analysis: dominance/must-pass-through dataflow over go/cfg (validate-then-apply, denied append), SSA pipeline comparison of the sign and verify chains, definite-assignment nil-flow in Verify",
   text="Decides structural necessary conditions of verified, authorised, all-or-nothing merging on every path: state changes dominated by the nil validation error after Wait, infallible apply phase, validated collection == applied collection with CanAppend and Verify called and recorded on every accepting path, denied append stores nothing, sign and verify pipelines agree, Verify is total for every codec, difference admits only equal-log-id entries. It does not decide the signature scheme or policy semantics.",
   note="Trusted: go/cfg, go/ssa, rule tables in checker/c06.go. User access controllers are opaque.", ref="§4 C06")
CLAIMED["C12"] = dict(technique="static analysis: nil-flow over go/cfg for decoder-filled struct fields (types discovered from decoder call sites), linear bound prover for wire-byte indices, crash-point and error-discipline scan over the call-graph closure of the decoders",
   text="Decides for every block a decoder can produce, on every path of the first-party decode closure: nilable wire-struct pointer fields are tested before dereference, wire-byte indices are in range, no unchecked assertion/panic/Must call, discarded errors are followed by nil tests, ToPlain always sets the clock. Third-party decoders are trusted not to panic.",
   note="Trusted: refmt/cbornode/cid/merkledag/encoding-json do not panic; go/cfg, go/ssa, checker/nilflow.go and lenprove.go (controls on every run).", ref="§4 C12")
CLAIMED["C20"] = dict(technique="static analysis: SSA data-dependence of post-lookup returns on the datastore result (cache-aside coherence), dominance facts over go/cfg for store-before-cache and create-after-failed-get, AST object identity for signed vs published identity fields",
   text="Decides on every path: a keystore method that consults the datastore answers from it, CreateKey caches and succeeds only after a successful Put, CreateKey is only called after a failed GetKey for the same id, and the identity publishes exactly what SignIdentity signed. It does not decide anything cryptographic.",
   note="Trusted: go/cfg, go/ssa; lru and datastore contracts. LRU behaviour and persistence are not covered.", ref="§4 C20")

NOT_APPLICABLE = {
}

PENDING = "static rules for this property are not yet built in this revision (see DESIGN.md §8 build order); not claimed until its check exists and is silent on the unchanged tree"

ALL = ["C%02d" % i for i in range(1, 21)]

def main():
    checks = []
    for pid in ALL:
        if pid not in CLAIMED:
            continue
        c = CLAIMED[pid]
        level = c.get("level", "other")
        checks.append({
            "property_id": pid,
            "quick_cmd": "./check.sh %s quick" % pid,
            "thorough_cmd": "./check.sh %s thorough" % pid,
            "evidence_file": "/verif/evidence/%s.json" % pid,
            "replay_cmd_template": "./bin/iplcheck -repo /repo -property %s -explain {path}" % pid,
            "engine": "iplcheck",
            "level_claimed": {"category": level, "text": c["text"] + " Rules added after the seeding rounds (for-every loops, refused operations leave no trace, option forwarding, error discipline, obligations adopted from properties sharing a necessary condition) are listed with their statement in the evidence file (coverage.rules) and in DESIGN §9.5/§9.8; each is a structural necessary condition, none decides the behaviour.", "design_ref": c["ref"] + "; §9"},
            "level_note": c["note"],
            "technique": c["technique"],
        })
    na = []
    for pid in ALL:
        if pid in CLAIMED:
            continue
        na.append({"property_id": pid, "reason": NOT_APPLICABLE.get(pid, PENDING)})
    m = {
        "version": 1,
        "setup_cmd": "./setup.sh",
        "hooks": {
            "guard": "verif",
            "enable": "none needed: the checks read /repo's source; no hook code exists in /repo",
            "baseline_off_cmd": "cd /repo && go test -mod=mod -json -vet=off -count=1 -timeout 25m ./...",
            "source_commits": [],
            "add_only": True,
        },
        "engines": [{
            "name": "iplcheck", "path": "/verif/checker",
            "serves_properties": sorted(CLAIMED),
            "kind_free_text": "repository-specific static analyser (go/packages + go/types + go/cfg + go/ssa, x/tools v0.29.0): lockset/lock-order, path/dominance rules, linear length prover, nil-flow, comparator abstract interpreter",
        }],
        "checks": checks,
        "not_applicable": na,
        "notes": "Technique family: static analysis only. Every check analyses /repo's current working tree on each run; nothing executes the library. Known findings: /verif/known-findings.json. Fix commits in /repo are unguarded 'fix:' commits listed there.",
    }
    json.dump(m, open("/verif/MANIFEST.json", "w"), indent=1)
    try:
        import jsonschema
        jsonschema.validate(m, json.load(open("/root/.vp/MANIFEST.schema.json")))
        print("MANIFEST.json valid;", len(checks), "checks,", len(na), "not_applicable")
    except ImportError:
        print("jsonschema not available; wrote MANIFEST.json unvalidated")

if __name__ == "__main__":
    main()
