#!/usr/bin/env python3
"""Regenerates the generated blocks of DESIGN.md (between <!-- BEGIN:x --> / <!-- END:x --> markers):
rules   — the as-built rule index, from the rule docs the checker writes into evidence/*.json
seeds   — seeded change -> rules that report it, from seeded/*/meta.json
"""
import json, glob, os, re
V = os.path.dirname(os.path.dirname(os.path.abspath(__file__)))

def rules():
    out = ["| rule | what it demands | obligations on the pinned tree |", "|---|---|---|"]
    for f in sorted(glob.glob(V + "/evidence/C*.json")):
        e = json.load(open(f)); c = e["coverage"]
        per = c.get("per_rule", {})
        for rid, doc in c.get("rules", {}).items():
            if rid == "control":
                continue
            n = per.get(rid)
            if isinstance(n, dict):
                n = ", ".join("%d %s" % (v, k) for k, v in sorted(n.items()))
            out.append("| %s | %s | %s |" % (rid, doc.replace("|", "\\|"), n if n is not None else ""))
    return "\n".join(out)

def seeds():
    out = ["| seeded change | what it does | own property's check | rules that report it (all properties) |", "|---|---|---|---|"]
    for d in sorted(glob.glob(V + "/seeded/*/meta.json")):
        m = json.load(open(d)); name = os.path.basename(os.path.dirname(d))
        summ = re.sub(r"^C\d+\s*/?\s*(seed|change)?\s*\d*\s*[—-]\s*", "", m.get("summary", "")).replace("|", "\\|")
        rl = sorted({r.split(" ")[0] for r in m.get("caught_by_rules", [])})
        out.append("| %s | %s | %s | %s |" % (name, summ[:150], "reports" if m.get("detected_by_own_property") else "**silent**", ", ".join(rl) or "—"))
    return "\n".join(out)

s = open(V + "/DESIGN.md").read()
for key, fn in (("rules", rules), ("seeds", seeds)):
    pat = re.compile(r"(<!-- BEGIN:%s -->\n).*?(<!-- END:%s -->)" % (key, key), re.S)
    if pat.search(s):
        s = pat.sub(lambda m: m.group(1) + fn() + "\n" + m.group(2), s)
open(V + "/DESIGN.md", "w").write(s)
print("DESIGN.md tables regenerated")
