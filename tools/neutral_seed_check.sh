#!/bin/bash
# checks the sub-agents' behaviour-preserving patches: build (+ optional tests) and all checks must stay silent
export GOFLAGS=-mod=mod GOPROXY=off GOSUMDB=off GOTOOLCHAIN=local
unset GOWORK
for pt in /tmp/neutral-seed/N*/[1-9]/patch.diff; do
  name=$(echo $pt | sed 's#/tmp/neutral-seed/##; s#/patch.diff##')
  D=$(mktemp -d /tmp/verif-neutral.XXXXXX)
  rsync -a --exclude .git /repo/ "$D/"
  if ! (cd "$D" && patch -p1 -s < "$pt" >/dev/null 2>&1); then echo "$name: PATCH-FAILED"; rm -rf "$D"; continue; fi
  if ! (cd "$D" && go build ./... 2> "$D/.build.err"); then echo "$name: BUILD-FAILED $(head -2 $D/.build.err)"; rm -rf "$D"; continue; fi
  t="tests-skipped"
  if [ "${1:-}" = "--tests" ]; then
    if (cd "$D" && go test -mod=mod -vet=off -count=1 -timeout 25m ./... > "$D/.test.log" 2>&1); then t="suite-pass"; else t="SUITE-FAIL"; fi
  fi
  out=$(/verif/bin/iplcheck -repo "$D" -property all -evidence-dir "$D/.ev" -known /verif/known-findings.json -controls '' 2>&1 | sed "s#$D/##g")
  bad=$(echo "$out" | grep -E "^\s+(violated|undecided)|CHECKER-" )
  if [ -z "$bad" ]; then echo "$name: silent ($t)"; else echo "$name: ALARM ($t)"; echo "$bad" | cut -c1-300; fi
  rm -rf "$D"
done
