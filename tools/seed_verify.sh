#!/bin/bash
# usage: [SEEDBASE=/tmp/seed2 TESTPREFIX=TestSeed2] seed_verify.sh <ID> <k>
# Confirms a seeded change in a scratch worktree: demo passes on clean HEAD, existing suite passes with the patch,
# demo fails with the patch; then runs the checker against the patched tree. Writes /tmp/seed/<ID>/<k>/verify.json.
set -u
ID="$1"; K="$2"
BASE=${SEEDBASE:-/tmp/seed}
S=$BASE/$ID/$K
export GOFLAGS=-mod=mod GOPROXY=off GOSUMDB=off GOTOOLCHAIN=local
unset GOWORK
W=/tmp/sv-$ID-$K
git -C /repo worktree remove --force "$W" >/dev/null 2>&1
git -C /repo worktree add -q --detach "$W" HEAD || exit 3
cp "$S/demo_test.go" "$W/test/zz_seed_demo_test.go"
T="${TESTPREFIX:-TestSeed}${ID}_${K}"
RACE=""
grep -qi "race" "$S/notes.md" 2>/dev/null && grep -qi "\-race" "$S/notes.md" && RACE="-race"
(cd "$W" && timeout 900 go test -mod=mod -vet=off -count=1 $RACE -timeout 10m -run "^${T}\$" ./test > "$S/clean_demo.log" 2>&1); CLEAN=$?
rm -f "$W/test/zz_seed_demo_test.go"
(cd "$W" && git apply "$S/patch.diff" 2> "$S/apply.log"); APPLY=$?
SUITE=-1; DEMO=-1
if [ $APPLY -eq 0 ]; then
  (cd "$W" && timeout 1500 go test -mod=mod -vet=off -count=1 -timeout 25m ./... > "$S/patched_suite.log" 2>&1); SUITE=$?
  cp "$S/demo_test.go" "$W/test/zz_seed_demo_test.go"
  (cd "$W" && timeout 900 go test -mod=mod -vet=off -count=1 $RACE -timeout 10m -run "^${T}\$" ./test > "$S/patched_demo.log" 2>&1); DEMO=$?
  rm -f "$W/test/zz_seed_demo_test.go"
  ${IPLCHECK:-/verif/bin/iplcheck} -repo "$W" -property all -evidence-dir "$W/.ev" -known /verif/known-findings.json -controls '' > "$S/checker.log" 2>&1
  CHK=$?
else
  CHK=-1
fi
git -C /repo worktree remove --force "$W" >/dev/null 2>&1
python3 - "$ID" "$K" "$CLEAN" "$APPLY" "$SUITE" "$DEMO" "$CHK" "$RACE" "$BASE" <<'PY'
import sys, json, re
ID,K,CLEAN,APPLY,SUITE,DEMO,CHK,RACE,BASE=sys.argv[1:10]
S=f"{BASE}/{ID}/{K}"
viol=[]
try:
    for l in open(S+"/checker.log"):
        m=re.match(r"\s+(violated|undecided) \[(R-[^\]]+|control)\] (.*?) at ", l)
        if m: viol.append(m.group(2)+" "+m.group(3))
        if l.startswith("CHECKER-"): viol.append(l.strip())
except FileNotFoundError: pass
props=sorted(set(re.sub(r"R-(C\d+)\..*",r"\1",v.split()[0]) for v in viol if v.startswith("R-")))
out=dict(id=ID,k=int(K),demo_passes_on_clean=(CLEAN=="0"),patch_applies=(APPLY=="0"),suite_passes_with_patch=(SUITE=="0"),demo_fails_with_patch=(DEMO not in("0","-1")),
  race_flag=RACE,checker_exit=int(CHK),checker_reports=viol,properties_reported=props,detected=(ID in props),
  confirmed=(CLEAN=="0" and APPLY=="0" and SUITE=="0" and DEMO not in("0","-1")))
json.dump(out,open(S+"/verify.json","w"),indent=1)
print(json.dumps({k:out[k] for k in ("id","k","confirmed","demo_passes_on_clean","suite_passes_with_patch","demo_fails_with_patch","detected","properties_reported")}))
for v in viol[:6]: print("   ",v[:200])
PY
