#!/bin/bash
# usage: [JOBS=n] [IPLCHECK=binary] neutral_check.sh [--tests]
# For every neutral (behaviour-preserving) patch: it must compile, pass the existing suite, and every check must stay silent.
export GOFLAGS=-mod=mod GOPROXY=off GOSUMDB=off GOTOOLCHAIN=local
unset GOWORK
one() {
  pt=$1; shift
  D=$(mktemp -d /tmp/verif-neutral.XXXXXX)
  rsync -a --exclude .git /repo/ "$D/"
  if ! (cd "$D" && patch -p1 -s < "$pt"); then echo "$(basename $pt): PATCH-FAILED"; rm -rf "$D"; return; fi
  if ! (cd "$D" && go build ./... 2> "$D/.build.err"); then echo "$(basename $pt): BUILD-FAILED $(head -3 $D/.build.err)"; rm -rf "$D"; return; fi
  t="skipped"
  if [ "${1:-}" = "--tests" ]; then
    if (cd "$D" && go test -mod=mod -vet=off -count=1 -timeout 25m ./... > "$D/.test.log" 2>&1); then t="suite-pass"; else t="SUITE-FAIL"; fi
  fi
  out=$(${IPLCHECK:-/verif/bin/iplcheck} -repo "$D" -property all -evidence-dir "$D/.ev" -known /verif/known-findings.json -controls '' 2>&1 | sed "s#$D/##g")
  bad=$(echo "$out" | grep -E "^\s+(violated|undecided)|CHECKER-" )
  if [ -z "$bad" ]; then echo "$(basename $pt): silent ($t)"; else echo "$(basename $pt): ALARM ($t)"; echo "$bad" | cut -c1-260; fi
  rm -rf "$D"
}
if [ "${1:-}" = "--one" ]; then pt=$2; shift 2; o=$(one "$pt" "$@"); printf '%s\n' "$o"; exit 0; fi
ls /verif/mutants/neutral-*.patch | xargs -P "${JOBS:-1}" -I{} "$0" --one {} "$@" | awk '/^neutral-/{k=$1} {print k "\t" $0}' | sort -s -k1,1 | cut -f2-
