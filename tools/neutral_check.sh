#!/bin/bash
# For every neutral (behaviour-preserving) patch: it must compile, pass the existing suite, and every check must stay silent.
export GOFLAGS=-mod=mod GOPROXY=off GOSUMDB=off GOTOOLCHAIN=local
unset GOWORK
for pt in /verif/mutants/neutral-*.patch; do
  D=$(mktemp -d /tmp/verif-neutral.XXXXXX)
  rsync -a --exclude .git /repo/ "$D/"
  if ! (cd "$D" && patch -p1 -s < "$pt"); then echo "$(basename $pt): PATCH-FAILED"; rm -rf "$D"; continue; fi
  if ! (cd "$D" && go build ./... 2> "$D/.build.err"); then echo "$(basename $pt): BUILD-FAILED $(head -3 $D/.build.err)"; rm -rf "$D"; continue; fi
  t="skipped"
  if [ "${1:-}" = "--tests" ]; then
    if (cd "$D" && go test -mod=mod -vet=off -count=1 -timeout 25m ./... > "$D/.test.log" 2>&1); then t="suite-pass"; else t="SUITE-FAIL"; fi
  fi
  out=$(${IPLCHECK:-/verif/bin/iplcheck} -repo "$D" -property all -evidence-dir "$D/.ev" -known /verif/known-findings.json -controls '' 2>&1 | sed "s#$D/##g")
  bad=$(echo "$out" | grep -E "^\s+(violated|undecided)|CHECKER-" )
  if [ -z "$bad" ]; then echo "$(basename $pt): silent ($t)"; else echo "$(basename $pt): ALARM ($t)"; echo "$bad" | cut -c1-260; fi
  rm -rf "$D"
done
