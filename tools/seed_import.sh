#!/bin/bash
# Copies the confirmed seeded defects from /tmp/seed/<ID>/<k> into /verif/seeded/<ID>-<k>/ and records, from a
# fresh checker run on a scratch copy of /repo with the patch applied, which rules report it.
set -u
BASE=${SEEDBASE:-/tmp/seed}; SUF=${SEEDSUFFIX:-}
for d in $BASE/C*/[123]; do
  id=$(basename $(dirname $d)); k=$(basename $d)
  [ -f $d/patch.diff ] && [ -f $d/verify.json ] || continue
  out=/verif/seeded/$id-$k$SUF; mkdir -p $out
  cp $d/patch.diff $out/patch.diff
  cp $d/demo_test.go $out/demo_test.go
  [ -f $d/notes.md ] && cp $d/notes.md $out/notes.md
  /verif/tools/trymut.sh $d/patch.diff all > /tmp/seed_import.$$ 2>&1
  python3 - "$id" "$k" "$d" "$out" /tmp/seed_import.$$ <<'PY'
import json,re,sys
id,k,d,out,log=sys.argv[1:]
v=json.load(open(d+'/verify.json'))
rules=[];props=[]
for l in open(log):
    m=re.match(r'\s+violated \[(R-(C\d+)[^\]]*)\] (\S+)',l)
    if m:
        rules.append(m.group(1)+' '+m.group(3)); props.append(m.group(2))
notes=open(d+'/notes.md').read() if __import__('os').path.exists(d+'/notes.md') else ''
def section(title):
    m=re.search(r'^##[^\n]*'+title+r'[^\n]*\n(.*?)(?=^## |\Z)',notes,re.S|re.M|re.I)
    return ' '.join(m.group(1).split())[:900] if m else ''
meta={
 'property':id,'seed':int(k),
 'summary':(re.search(r'^# (.*)$',notes,re.M).group(1) if re.search(r'^# (.*)$',notes,re.M) else ''),
 'needs_to_manifest':section('needed to manifest') or section('manifest'),
 'demo':'demo_test.go (copy next to the package it names, run with go test -run TestSeed)',
 'confirmed':{'demo_passes_on_clean_tree':v.get('demo_passes_on_clean'),
              'suite_passes_with_patch':v.get('suite_passes_with_patch'),
              'demo_fails_with_patch':v.get('demo_fails_with_patch'),
              'race_flag':v.get('race_flag','')},
 'how_run':'tools/seed_verify.sh %s %s (worktree under /tmp; demo on clean tree, suite+demo with patch); tools/trymut.sh patch.diff all (checker on a scratch copy)'%(id,k),
 'caught_by_properties':sorted(set(props)),
 'caught_by_rules':sorted(set(rules)),
 'detected_by_own_property': id in props,
}
json.dump(meta,open(out+'/meta.json','w'),indent=1)
print(id,k,'own' if id in props else 'MISSED',sorted(set(props)))
PY
done
rm -f /tmp/seed_import.$$
