#!/bin/bash
# usage: [IPLCHECK=/path/to/binary] mutant_check.sh
# Every breaking patch under /verif/mutants (<ID>-*.patch) must be reported by its own property's check on a
# scratch copy of /repo. Prints one line per patch that is NOT reported (or does not apply); silent otherwise.
cd /verif || exit 2
bad=0
for m in mutants/C[0-9][0-9]-*.patch; do
  n=$(basename "$m"); id=${n%%-*}
  out=$(tools/trymut.sh "/verif/$m" "$id" 2>&1)
  if echo "$out" | grep -qa "PATCH-FAILED"; then echo "$n: PATCH-FAILED"; bad=1; continue; fi
  v=$(echo "$out" | grep -a "quick:" | awk '{print $7}')
  if [ -z "$v" ] || [ "$v" = "0" ]; then echo "$n: NOT REPORTED by $id"; bad=1; fi
done
exit $bad
