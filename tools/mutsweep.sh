#!/bin/bash
# usage: mutsweep.sh <mutants-dir> <results.tsv> [jobs] [--tests]
# For every mutant directory written by bin/mutgen: overlay it on a scratch copy of /repo (outside /repo and /verif),
# build, run the checker on all properties, optionally run the repository's test suite; one TSV line per mutant:
#   name  build(ok|nobuild)  properties-reporting  rules-reporting  tests(pass|fail|skipped)
# Evaluation tooling for the rules (which one-site edits do they see?), not a check.
M="$1"; OUT="$2"; J="${3:-6}"; TESTS="${4:-}"
export GOFLAGS=-mod=mod GOPROXY=off GOSUMDB=off GOTOOLCHAIN=local
unset GOWORK
one() {
  d="$1"; TESTS="$2"; name=$(basename "$d")
  D=$(mktemp -d /tmp/verif-msw.XXXXXX)
  rsync -a --exclude .git /repo/ "$D/"
  (cd "$d" && find . -name '*.go' | while read f; do cp "$f" "$D/$f"; done)
  if ! (cd "$D" && go build ./... >/dev/null 2>&1); then
    echo -e "$name\tnobuild\t-\t-\tskipped"; rm -rf "$D"; return
  fi
  out=$(/verif/bin/iplcheck -repo "$D" -property all -evidence-dir "$D/.ev" -known /verif/known-findings.json -controls '' 2>&1)
  rules=$(echo "$out" | grep -oE "^\s+(violated|undecided) \[[^]]+\]" | grep -oE "\[[^]]+\]" | tr -d '[]' | sort -u | tr '\n' ',' )
  props=$(echo "$rules" | tr ',' '\n' | grep -oE "C[0-9]+" | sort -u | tr '\n' ',')
  echo "$out" | grep -q "CHECKER-" && props="${props}CHECKER-FAILURE,"
  t=skipped
  if [ "$TESTS" = "--tests" ]; then
    if (cd "$D" && timeout 600 go test -mod=mod -vet=off -count=1 -timeout 8m ./... >/dev/null 2>&1); then t=pass; else t=fail; fi
  fi
  echo -e "$name\tok\t${props:--}\t${rules:--}\t$t"
  rm -rf "$D"
}
export -f one
ls -d "$M"/*/ | sed "s:/$::" | xargs -P "$J" -I{} bash -c 'one "$@"' _ {} "$TESTS" > "$OUT"
echo "done: $(wc -l < "$OUT") mutants"
