#!/bin/bash
# usage: rebase_patch.sh <patch> [base-commit]   — rewrites the patch against /repo HEAD (three-way per file, in /tmp copies only)
set -u
P="$1"; BASE="${2:-HEAD~1}"
D=$(mktemp -d /tmp/verif-rb.XXXXXX)
mkdir -p $D/base $D/cur
git -C /repo archive "$BASE" | tar -x -C $D/base
rsync -a --exclude .git /repo/ $D/cur/
cp -r $D/base $D/patched
if ! (cd $D/patched && patch -p1 -s < "$P" >/dev/null 2>&1); then echo "REBASE-FAILED (does not apply to $BASE): $P"; rm -rf $D; exit 1; fi
find $D/patched -name '*.orig' -delete
cp -r $D/cur $D/new
conf=0
(cd $D/patched && find . -type f -name '*.go') | while read f; do
  if [ ! -f $D/base/$f ]; then mkdir -p $(dirname $D/new/$f); cp $D/patched/$f $D/new/$f; continue; fi
  cmp -s $D/base/$f $D/patched/$f && continue
  cp $D/cur/$f $D/new/$f
  git merge-file $D/new/$f $D/base/$f $D/patched/$f || echo "CONFLICT $f"
done > $D/log
if grep -q CONFLICT $D/log; then echo "REBASE-CONFLICT $P: $(cat $D/log | tr '\n' ' ')"; rm -rf $D; exit 2; fi
(cd $D && mv cur a && mv new b && diff -urN a b | grep -v '^diff -urN' | sed -E 's#^(---|\+\+\+) ([ab]/[^\t]*)\t.*#\1 \2#' ) > $D/out.diff
if git -C /repo apply --check $D/out.diff; then cp $D/out.diff "$P"; echo "rebased $P"; else echo "REBASE-BAD $P"; fi
rm -rf $D
