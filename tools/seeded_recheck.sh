#!/bin/bash
# usage: seeded_recheck.sh <name>...   (names of directories under /verif/seeded)
# Re-confirms kept seeded changes against /repo's current HEAD in a scratch worktree (removed afterwards):
# the demo passes on the clean tree, the repository's suite passes with the patch, the demo fails with the patch.
export GOFLAGS=-mod=mod GOPROXY=off GOSUMDB=off GOTOOLCHAIN=local
unset GOWORK
for name in "$@"; do
  S=/verif/seeded/$name
  W=/tmp/sr-$name
  git -C /repo worktree remove --force "$W" >/dev/null 2>&1
  git -C /repo worktree add -q --detach "$W" HEAD || { echo "$name: worktree failed"; continue; }
  T=$(grep -oE "func (TestSeed[0-9]?C[0-9]+_[0-9]+)" "$S/demo_test.go" | head -1 | awk '{print $2}')
  RACE=""
  grep -qi "\-race" "$S/notes.md" 2>/dev/null && python3 -c "import json,sys; sys.exit(0 if json.load(open('$S/meta.json'))['confirmed'].get('race_flag') else 1)" && RACE="-race"
  cp "$S/demo_test.go" "$W/test/zz_seed_demo_test.go"
  (cd "$W" && timeout 900 go test -mod=mod -vet=off -count=1 $RACE -timeout 10m -run "^${T}\$" ./test >/dev/null 2>&1); CLEAN=$?
  rm -f "$W/test/zz_seed_demo_test.go"
  (cd "$W" && git apply "$S/patch.diff" 2>/dev/null); APPLY=$?
  SUITE=-1; DEMO=-1
  if [ $APPLY -eq 0 ]; then
    (cd "$W" && timeout 1500 go test -mod=mod -vet=off -count=1 -timeout 25m ./... >/dev/null 2>&1); SUITE=$?
    cp "$S/demo_test.go" "$W/test/zz_seed_demo_test.go"
    (cd "$W" && timeout 900 go test -mod=mod -vet=off -count=1 $RACE -timeout 10m -run "^${T}\$" ./test >/dev/null 2>&1); DEMO=$?
  fi
  git -C /repo worktree remove --force "$W" >/dev/null 2>&1
  ok=no; [ $CLEAN -eq 0 ] && [ $APPLY -eq 0 ] && [ $SUITE -eq 0 ] && [ $DEMO -ne 0 ] && ok=yes
  echo "$name: confirmed=$ok (demo-clean=$CLEAN apply=$APPLY suite=$SUITE demo-patched=$DEMO test=$T)"
done
