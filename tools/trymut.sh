#!/bin/sh
# usage: trymut.sh <patch.diff> [property-list|all]
# Applies the patch to a scratch copy of /repo (outside /repo and /verif), runs the checker on it, removes the copy.
set -u
PATCH="$1"; PROPS="${2:-all}"
export GOFLAGS=-mod=mod GOPROXY=off GOSUMDB=off GOTOOLCHAIN=local
unset GOWORK
D=$(mktemp -d /tmp/verif-mut.XXXXXX)
rsync -a --exclude .git /repo/ "$D/"
if ! (cd "$D" && patch -p1 -s < "$PATCH"); then echo "PATCH-FAILED $PATCH"; rm -rf "$D"; exit 3; fi
(cd "$D" && go build ./... 2>&1 | head -5)
${IPLCHECK:-/verif/bin/iplcheck} -repo "$D" -property "$PROPS" -evidence-dir "$D/.ev" -known /verif/known-findings.json -controls '' 2>&1 | grep -v "^VIOLATION" | sed "s#$D/##g"
rc=$?
rm -rf "$D"
exit 0
