#!/bin/bash
# checker-only sweep over the seeded changes in /verif/seeded: does the seed's own property's check fire? which others?
# usage: [JOBS=n] [IPLCHECK=binary] seed_sweep.sh        (one line per seed, sorted)
one() {
  d=$1; n=$(basename $d); id=${n%%-*}
  [ -f $d/patch.diff ] || exit 0
  out=$(/verif/tools/trymut.sh $d/patch.diff all 2>&1)
  props=$(echo "$out" | grep -E "^(C[0-9]+) quick" | grep -v " 0 violations" | awk '{print $1}' | tr '\n' ' ')
  own=$(echo "$props" | grep -qw $id && echo DETECTED || echo missed)
  fail=$(echo "$out" | grep -c "PATCH-FAILED\|CHECKER-")
  echo "$n $own [$props] patchfail=$fail"
}
if [ "${1:-}" = "--one" ]; then one "$2"; exit 0; fi
ls -d /verif/seeded/C*-* | xargs -P "${JOBS:-1}" -n 1 "$0" --one | sort
