#!/bin/bash
# checker-only sweep over the seeded changes in /verif/seeded: does the seed's own property's check fire? which others?
for d in /verif/seeded/C*-*; do
  n=$(basename $d); id=${n%%-*}
  [ -f $d/patch.diff ] || continue
  out=$(/verif/tools/trymut.sh $d/patch.diff all 2>&1)
  props=$(echo "$out" | grep -E "^(C[0-9]+) quick" | grep -v " 0 violations" | awk '{print $1}' | tr '\n' ' ')
  own=$(echo "$props" | grep -qw $id && echo DETECTED || echo missed)
  fail=$(echo "$out" | grep -c "PATCH-FAILED\|CHECKER-")
  echo "$n $own [$props] patchfail=$fail"
done
