#!/bin/bash
# checker-only sweep over all seeds: does the seed's own property's check fire? which others?
for d in /tmp/seed/C*/[123]; do
  id=$(basename $(dirname $d)); k=$(basename $d)
  [ -f $d/patch.diff ] || continue
  out=$(/verif/tools/trymut.sh $d/patch.diff all 2>&1)
  props=$(echo "$out" | grep -E "^(C[0-9]+) quick" | grep -v " 0 violations" | awk '{print $1}' | tr '\n' ' ')
  own=$(echo "$props" | grep -qw $id && echo DETECTED || echo missed)
  fail=$(echo "$out" | grep -c "PATCH-FAILED\|CHECKER-")
  echo "$id/$k $own [$props] patchfail=$fail"
done
