// mutgen writes one-site mutants of the first-party, non-test, non-generated Go sources of a repository.
// It is a tool for evaluating the checker (which seeded edits do the rules see?), not a check: nothing here
// decides a property. Each mutant is a directory <out>/<op>-<file>-<line>-<n>/ holding the mutated file at its
// relative path and a meta.json; tools/mutsweep.sh overlays it on a scratch copy of /repo.
package main

import (
	"encoding/json"
	"flag"
	"fmt"
	"go/ast"
	"go/parser"
	"go/token"
	"os"
	"path/filepath"
	"sort"
	"strings"
)

type edit struct {
	start, end int
	text       string
}

type mutant struct {
	Op, File, Func, What string
	Line             int
	edits            []edit
}

func main() {
	repo := flag.String("repo", "/repo", "repository root")
	out := flag.String("out", "", "output directory")
	ops := flag.String("ops", "loopbreak,iffalse,iftrue,delif,delcall,deldefer,delassign,cmpflip,delgo,swapargs,boolflip,intoff,arith", "operators")
	flag.Parse()
	want := map[string]bool{}
	for _, o := range strings.Split(*ops, ",") {
		want[o] = true
	}
	var files []string
	filepath.Walk(*repo, func(path string, info os.FileInfo, err error) error {
		if err != nil {
			return nil
		}
		rel, _ := filepath.Rel(*repo, path)
		if info.IsDir() {
			if strings.HasPrefix(info.Name(), ".") && rel != "." || rel == "test" || rel == "example" || rel == "vendor" {
				return filepath.SkipDir
			}
			return nil
		}
		if strings.HasSuffix(path, ".go") && !strings.HasSuffix(path, "_test.go") && !strings.HasSuffix(path, ".pb.go") {
			files = append(files, rel)
		}
		return nil
	})
	sort.Strings(files)
	total := 0
	for _, rel := range files {
		src, err := os.ReadFile(filepath.Join(*repo, rel))
		if err != nil {
			continue
		}
		fset := token.NewFileSet()
		f, err := parser.ParseFile(fset, rel, src, parser.ParseComments)
		if err != nil {
			continue
		}
		off := func(p token.Pos) int { return fset.Position(p).Offset }
		line := func(p token.Pos) int { return fset.Position(p).Line }
		text := func(n ast.Node) string { return string(src[off(n.Pos()):off(n.End())]) }
		var muts []mutant
		for _, d := range f.Decls {
			fd, ok := d.(*ast.FuncDecl)
			if !ok || fd.Body == nil {
				continue
			}
			fname := fd.Name.Name
			if fd.Recv != nil && len(fd.Recv.List) > 0 {
				fname = strings.TrimPrefix(text(fd.Recv.List[0].Type), "*") + "." + fname
			}
			add := func(op string, pos token.Pos, what string, e ...edit) {
				if want[op] {
					muts = append(muts, mutant{Op: op, File: rel, Func: fname, What: what, Line: line(pos), edits: e})
				}
			}
			ast.Inspect(fd.Body, func(n ast.Node) bool {
				switch x := n.(type) {
				case *ast.ForStmt:
					add("loopbreak", x.Pos(), "break appended to the loop body", edit{off(x.Body.Rbrace), off(x.Body.Rbrace), "\nbreak\n"})
				case *ast.RangeStmt:
					add("loopbreak", x.Pos(), "break appended to the loop body", edit{off(x.Body.Rbrace), off(x.Body.Rbrace), "\nbreak\n"})
				case *ast.IfStmt:
					// the whole guard removed (only guards without else whose body leaves: return/continue/break/panic)
					if x.Else == nil && x.Init == nil && len(x.Body.List) > 0 {
						leaves := false
						switch last := x.Body.List[len(x.Body.List)-1].(type) {
						case *ast.ReturnStmt, *ast.BranchStmt:
							leaves = true
						case *ast.ExprStmt:
							if call, ok := last.X.(*ast.CallExpr); ok {
								if id, ok := call.Fun.(*ast.Ident); ok && id.Name == "panic" {
									leaves = true
								}
							}
						}
						if leaves {
							add("delif", x.Pos(), "guard removed: if "+text(x.Cond), edit{off(x.Pos()), off(x.End()), ""})
						}
					}
					c := text(x.Cond)
					add("iffalse", x.Pos(), "condition forced false: "+c, edit{off(x.Cond.Pos()), off(x.Cond.End()), "false && (" + c + ")"})
					add("iftrue", x.Pos(), "condition forced true: "+c, edit{off(x.Cond.Pos()), off(x.Cond.End()), "true || (" + c + ")"})
				case *ast.ExprStmt:
					if _, ok := x.X.(*ast.CallExpr); ok {
						add("delcall", x.Pos(), "call statement removed: "+text(x), edit{off(x.Pos()), off(x.End()), ""})
					}
				case *ast.DeferStmt:
					add("deldefer", x.Pos(), "defer removed: "+text(x), edit{off(x.Pos()), off(x.End()), ""})
				case *ast.GoStmt:
					add("delgo", x.Pos(), "go statement made synchronous", edit{off(x.Pos()), off(x.Pos()) + 2, ""})
				case *ast.AssignStmt:
					if x.Tok == token.ASSIGN && len(x.Lhs) == 1 && len(x.Rhs) == 1 {
						switch x.Lhs[0].(type) {
						case *ast.SelectorExpr, *ast.IndexExpr:
							add("delassign", x.Pos(), "store removed: "+text(x), edit{off(x.Pos()), off(x.End()), "_ = " + text(x.Rhs[0])})
						}
					}
				case *ast.CallExpr:
					// two adjacent arguments exchanged (kept only when it still type-checks)
					for i := 0; i+1 < len(x.Args); i++ {
						a, b := text(x.Args[i]), text(x.Args[i+1])
						if a != b {
							add("swapargs", x.Args[i].Pos(), fmt.Sprintf("arguments %d and %d of %s exchanged", i, i+1, text(x.Fun)),
								edit{off(x.Args[i].Pos()), off(x.Args[i].End()), b}, edit{off(x.Args[i+1].Pos()), off(x.Args[i+1].End()), a})
						}
					}
				case *ast.Ident:
					if x.Name == "true" || x.Name == "false" {
						nv := "true"
						if x.Name == "true" {
							nv = "false"
						}
						add("boolflip", x.Pos(), x.Name+" -> "+nv, edit{off(x.Pos()), off(x.End()), nv})
					}
				case *ast.BasicLit:
					if x.Kind == token.INT {
						switch x.Value {
						case "0":
							add("intoff", x.Pos(), "0 -> 1", edit{off(x.Pos()), off(x.End()), "1"})
						case "1":
							add("intoff", x.Pos(), "1 -> 0", edit{off(x.Pos()), off(x.End()), "0"})
							add("intoff", x.Pos(), "1 -> 2", edit{off(x.Pos()), off(x.End()), "2"})
						default:
							add("intoff", x.Pos(), x.Value+" -> "+x.Value+"+1", edit{off(x.Pos()), off(x.End()), "(" + x.Value + "+1)"})
						}
					}
				case *ast.BinaryExpr:
					// arithmetic operator exchanged
					if x.Op == token.ADD || x.Op == token.SUB {
						nt := "-"
						if x.Op == token.SUB {
							nt = "+"
						}
						add("arith", x.OpPos, fmt.Sprintf("%s -> %s in %s", x.Op, nt, text(x)), edit{off(x.OpPos), off(x.OpPos) + 1, nt})
					}
					flip := map[token.Token]string{token.LSS: "<=", token.LEQ: "<", token.GTR: ">=", token.GEQ: ">", token.EQL: "!=", token.NEQ: "=="}
					if nt, ok := flip[x.Op]; ok {
						add("cmpflip", x.OpPos, fmt.Sprintf("%s -> %s in %s", x.Op, nt, text(x)), edit{off(x.OpPos), off(x.OpPos) + len(x.Op.String()), nt})
					}
				}
				return true
			})
		}
		count := map[string]int{}
		for _, m := range muts {
			k := fmt.Sprintf("%s-%s-%d", m.Op, strings.ReplaceAll(strings.TrimSuffix(m.File, ".go"), "/", "_"), m.Line)
			count[k]++
			name := fmt.Sprintf("%s-%d", k, count[k])
			dir := filepath.Join(*out, name)
			os.MkdirAll(filepath.Join(dir, filepath.Dir(m.File)), 0o755)
			b := append([]byte(nil), src...)
			sort.Slice(m.edits, func(i, j int) bool { return m.edits[i].start > m.edits[j].start })
			for _, e := range m.edits {
				b = append(b[:e.start:e.start], append([]byte(e.text), b[e.end:]...)...)
			}
			os.WriteFile(filepath.Join(dir, m.File), b, 0o644)
			meta, _ := json.Marshal(map[string]interface{}{"name": name, "op": m.Op, "file": m.File, "func": m.Func, "line": m.Line, "what": m.What})
			os.WriteFile(filepath.Join(dir, "meta.json"), meta, 0o644)
			total++
		}
	}
	fmt.Println("mutants:", total)
}
