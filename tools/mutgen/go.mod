module verif/mutgen

go 1.22
