#!/bin/sh
# Run once after a fresh restore, offline: builds the checker and warms the compiler's export-data cache
# for the repository's dependencies (go/packages needs it; cold ~35 s, afterwards ~2 s per check).
set -u
cd /verif || exit 2
export GOFLAGS=-mod=mod GOPROXY=off GOSUMDB=off GOTOOLCHAIN=local
unset GOWORK
mkdir -p bin evidence
(cd checker && go build -o ../bin/iplcheck .) || exit 2
(cd /repo && go build ./... ) || exit 2
./bin/iplcheck -list
