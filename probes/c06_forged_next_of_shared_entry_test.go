package test

// Before 'fix: compute the merged heads from our own entry objects only': fails (a forged object that claims
// the hash of an entry the log already holds, with a Next list naming the log's head, makes that head vanish).

import (
	"context"
	"fmt"
	"testing"

	ipfslog "berty.tech/go-ipfs-log"
	"berty.tech/go-ipfs-log/entry"
	idp "berty.tech/go-ipfs-log/identityprovider"
	"berty.tech/go-ipfs-log/iface"
	ks "berty.tech/go-ipfs-log/keystore"
	"github.com/ipfs/go-cid"
	dssync "github.com/ipfs/go-datastore/sync"
	mocknet "github.com/libp2p/go-libp2p/p2p/net/mock"
	"github.com/stretchr/testify/require"
)

func TestProbeForgedNextOfSharedEntry(t *testing.T) {
	ctx, cancel := context.WithCancel(context.Background())
	defer cancel()
	m := mocknet.New()
	defer m.Close()
	ipfs, closeNode := NewMemoryServices(ctx, t, m)
	defer closeNode()
	datastore := dssync.MutexWrap(NewIdentityDataStore(t))
	keystore, err := ks.NewKeystore(datastore)
	require.NoError(t, err)
	ids := make([]*idp.Identity, 2)
	for i, char := range []rune{'A', 'B'} {
		ids[i], err = idp.CreateIdentity(ctx, &idp.CreateIdentityOptions{Keystore: keystore, ID: fmt.Sprintf("user%c", char), Type: "orbitdb"})
		require.NoError(t, err)
	}
	a, _ := ipfslog.NewLog(ipfs, ids[0], &ipfslog.LogOptions{ID: "X"})
	x1, err := a.Append(ctx, []byte("x1"), nil)
	require.NoError(t, err)
	x2, err := a.Append(ctx, []byte("x2"), nil)
	require.NoError(t, err)

	// the hostile log's head claims to be x1 and claims that it points at x2
	forged := x1.(*entry.Entry).Copy().(*entry.Entry)
	forged.Hash = x1.GetHash()
	forged.Next = []cid.Cid{x2.GetHash()}
	b, err := ipfslog.NewLog(ipfs, ids[1], &ipfslog.LogOptions{ID: "X", Entries: entry.NewOrderedMapFromEntries([]iface.IPFSLogEntry{forged}), Heads: []iface.IPFSLogEntry{forged}})
	require.NoError(t, err)

	before := a.Values().Len()
	_, err = a.Join(b, -1)
	require.NoError(t, err)
	require.Equal(t, before, a.Values().Len(), "entries vanished from the view although nothing new was merged")
	heads := map[string]bool{}
	for _, h := range a.Heads().Slice() {
		heads[string(h.GetPayload())] = true
	}
	require.True(t, heads["x2"], "the log's real head is no longer a head")
}
