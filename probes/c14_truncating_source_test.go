package test

// The wrapper only forces the schedule "heads read; size-bounded merge into the source; entries read" (the same
// schedule against a plain *IPFSLog cannot be forced from a test). Fails before 'fix: read the heads and entries
// of the other log at one instant in Join'. After that commit a first-party source is read under one lock; the
// wrapped (foreign) source of this probe still went through the two-step path and kept failing until 'fix: keep
// our own entry objects as heads when merging', which also drops a head whose entry the log does not hold.

import (
	"context"
	"fmt"
	"testing"

	ipfslog "berty.tech/go-ipfs-log"
	idp "berty.tech/go-ipfs-log/identityprovider"
	"berty.tech/go-ipfs-log/iface"
	ks "berty.tech/go-ipfs-log/keystore"
	dssync "github.com/ipfs/go-datastore/sync"
	mocknet "github.com/libp2p/go-libp2p/p2p/net/mock"
	"github.com/stretchr/testify/require"
)

type srcWrap struct {
	iface.IPFSLog
	hook func()
}

func (s *srcWrap) RawHeads() iface.IPFSLogOrderedEntries {
	h := s.IPFSLog.RawHeads()
	if s.hook != nil {
		f := s.hook
		s.hook = nil
		f()
	}
	return h
}

func TestProbeTruncatingSource(t *testing.T) {
	ctx, cancel := context.WithCancel(context.Background())
	defer cancel()
	m := mocknet.New()
	defer m.Close()
	ipfs, closeNode := NewMemoryServices(ctx, t, m)
	defer closeNode()
	datastore := dssync.MutexWrap(NewIdentityDataStore(t))
	keystore, err := ks.NewKeystore(datastore)
	require.NoError(t, err)
	ids := make([]*idp.Identity, 3)
	for i, char := range []rune{'A', 'B', 'C'} {
		ids[i], err = idp.CreateIdentity(ctx, &idp.CreateIdentityOptions{Keystore: keystore, ID: fmt.Sprintf("user%c", char), Type: "orbitdb"})
		require.NoError(t, err)
	}
	dst, _ := ipfslog.NewLog(ipfs, ids[0], &ipfslog.LogOptions{ID: "X"})
	src, _ := ipfslog.NewLog(ipfs, ids[1], &ipfslog.LogOptions{ID: "X"})
	x, _ := ipfslog.NewLog(ipfs, ids[2], &ipfslog.LogOptions{ID: "X"})
	_, err = dst.Append(ctx, []byte("d1"), nil)
	require.NoError(t, err)
	for i := 1; i <= 2; i++ {
		_, err = src.Append(ctx, []byte(fmt.Sprintf("s%d", i)), nil)
		require.NoError(t, err)
	}
	for i := 1; i <= 5; i++ {
		_, err = x.Append(ctx, []byte(fmt.Sprintf("x%d", i)), nil)
		require.NoError(t, err)
	}
	w := &srcWrap{IPFSLog: src, hook: func() {
		_, err := src.Join(x, 1)
		require.NoError(t, err)
	}}
	_, err = dst.Join(w, -1)
	require.NoError(t, err)
	entries := dst.GetEntries()
	for _, h := range dst.Heads().Slice() {
		if _, ok := entries.Get(h.GetHash().String()); !ok {
			t.Fatalf("head %s of the merged log is not one of its entries", string(h.GetPayload()))
		}
	}
}
