package test

// A LogOptions value reused for two logs: NewLog writes the heads it derived from the first call's entries
// into the caller's struct, and the second call — with other entries and no heads given — takes them for given.

import (
	"context"
	"fmt"
	"testing"

	ipfslog "berty.tech/go-ipfs-log"
	"berty.tech/go-ipfs-log/entry"
	idp "berty.tech/go-ipfs-log/identityprovider"
	ks "berty.tech/go-ipfs-log/keystore"
	dssync "github.com/ipfs/go-datastore/sync"
	mocknet "github.com/libp2p/go-libp2p/p2p/net/mock"
	"github.com/stretchr/testify/require"
)

func TestProbeReusedLogOptionsKeepDerivedHeads(t *testing.T) {
	ctx, cancel := context.WithCancel(context.Background())
	defer cancel()
	m := mocknet.New()
	defer m.Close()
	ipfs, closeNode := NewMemoryServices(ctx, t, m)
	defer closeNode()
	datastore := dssync.MutexWrap(NewIdentityDataStore(t))
	keystore, err := ks.NewKeystore(datastore)
	require.NoError(t, err)
	id, err := idp.CreateIdentity(ctx, &idp.CreateIdentityOptions{Keystore: keystore, ID: "userA", Type: "orbitdb"})
	require.NoError(t, err)

	src, err := ipfslog.NewLog(ipfs, id, &ipfslog.LogOptions{ID: "X"})
	require.NoError(t, err)
	for i := 1; i <= 5; i++ {
		_, err = src.Append(ctx, []byte(fmt.Sprintf("e%d", i)), nil)
		require.NoError(t, err)
	}
	all := src.Values().Slice()

	opts := &ipfslog.LogOptions{ID: "X"}
	opts.Entries = entry.NewOrderedMapFromEntries(all[:3])
	first, err := ipfslog.NewLog(ipfs, id, opts)
	require.NoError(t, err)
	require.Equal(t, 3, first.Values().Len())

	opts.Entries = entry.NewOrderedMapFromEntries(all) // the caller never set Heads
	second, err := ipfslog.NewLog(ipfs, id, opts)
	require.NoError(t, err)
	heads := second.Heads().Slice()
	require.Len(t, heads, 1)
	require.Equal(t, "e5", string(heads[0].GetPayload()), "the head of a log holding e1..e5")
	require.Equal(t, 5, second.Values().Len(), "Values() of a log that holds %d entries", second.Len())
}
