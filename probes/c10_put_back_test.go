package test

// Before 'fix: keep every given entry when NewFromEntry puts cut-off ones back': fails for one of the two
// identity assignments (the supplied B7 is lost).

import (
	"context"
	"fmt"
	"testing"

	ipfslog "berty.tech/go-ipfs-log"
	"berty.tech/go-ipfs-log/entry"
	idp "berty.tech/go-ipfs-log/identityprovider"
	"berty.tech/go-ipfs-log/iface"
	ks "berty.tech/go-ipfs-log/keystore"
	dssync "github.com/ipfs/go-datastore/sync"
	mocknet "github.com/libp2p/go-libp2p/p2p/net/mock"
	"github.com/stretchr/testify/require"
)

func TestProbeFromEntryPutBack(t *testing.T) {
	ctx, cancel := context.WithCancel(context.Background())
	defer cancel()
	m := mocknet.New()
	defer m.Close()
	ipfs, closeNode := NewMemoryServices(ctx, t, m)
	defer closeNode()
	datastore := dssync.MutexWrap(NewIdentityDataStore(t))
	keystore, err := ks.NewKeystore(datastore)
	require.NoError(t, err)
	ids := make([]*idp.Identity, 2)
	for i, char := range []rune{'A', 'B'} {
		ids[i], err = idp.CreateIdentity(ctx, &idp.CreateIdentityOptions{Keystore: keystore, ID: fmt.Sprintf("user%c", char), Type: "orbitdb"})
		require.NoError(t, err)
	}
	try := func(ia, ib int) bool {
		la, _ := ipfslog.NewLog(ipfs, ids[ia], &ipfslog.LogOptions{ID: "X"})
		lb, _ := ipfslog.NewLog(ipfs, ids[ib], &ipfslog.LogOptions{ID: "X"})
		var as, bs []iface.IPFSLogEntry
		for i := 1; i <= 10; i++ {
			e, err := la.Append(ctx, []byte(fmt.Sprintf("A%d", i)), nil)
			require.NoError(t, err)
			as = append(as, e)
		}
		for i := 1; i <= 7; i++ {
			e, err := lb.Append(ctx, []byte(fmt.Sprintf("B%d", i)), nil)
			require.NoError(t, err)
			bs = append(bs, e)
		}
		n := 4
		src := []iface.IPFSLogEntry{as[0], bs[6], as[9]}
		l, err := ipfslog.NewFromEntry(ctx, ipfs, ids[ia], src, &ipfslog.LogOptions{ID: "X"}, &entry.FetchOptions{Length: &n})
		require.NoError(t, err)
		got := map[string]bool{}
		for _, e := range l.GetEntries().Slice() {
			got[string(e.GetPayload())] = true
		}
		return got["A1"] && got["B7"] && got["A10"]
	}
	if ok1, ok2 := try(0, 1), try(1, 0); !ok1 || !ok2 {
		t.Fatalf("a supplied entry is missing from the loaded log (%v %v)", ok1, ok2)
	}
}
