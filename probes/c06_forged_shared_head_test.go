package test

// Before 'fix: keep our own entry objects as heads when merging': fails (a forged object with a genuine hash
// becomes part of Values()).

import (
	"context"
	"fmt"
	"testing"

	ipfslog "berty.tech/go-ipfs-log"
	"berty.tech/go-ipfs-log/entry"
	idp "berty.tech/go-ipfs-log/identityprovider"
	"berty.tech/go-ipfs-log/iface"
	ks "berty.tech/go-ipfs-log/keystore"
	dssync "github.com/ipfs/go-datastore/sync"
	mocknet "github.com/libp2p/go-libp2p/p2p/net/mock"
	"github.com/stretchr/testify/require"
)

func TestProbeForgedSharedHead(t *testing.T) {
	ctx, cancel := context.WithCancel(context.Background())
	defer cancel()
	m := mocknet.New()
	defer m.Close()
	ipfs, closeNode := NewMemoryServices(ctx, t, m)
	defer closeNode()
	datastore := dssync.MutexWrap(NewIdentityDataStore(t))
	keystore, err := ks.NewKeystore(datastore)
	require.NoError(t, err)
	ids := make([]*idp.Identity, 2)
	for i, char := range []rune{'A', 'B'} {
		ids[i], err = idp.CreateIdentity(ctx, &idp.CreateIdentityOptions{Keystore: keystore, ID: fmt.Sprintf("user%c", char), Type: "orbitdb"})
		require.NoError(t, err)
	}
	a, _ := ipfslog.NewLog(ipfs, ids[0], &ipfslog.LogOptions{ID: "X"})
	_, err = a.Append(ctx, []byte("genuine-1"), nil)
	require.NoError(t, err)
	head, err := a.Append(ctx, []byte("genuine-2"), nil)
	require.NoError(t, err)

	// a hostile replica presents, as its head, an object that claims the hash of a's head but has another payload
	forged := head.(*entry.Entry).Copy().(*entry.Entry)
	forged.Payload = []byte("forged")
	forged.Hash = head.GetHash()
	b, err := ipfslog.NewLog(ipfs, ids[1], &ipfslog.LogOptions{ID: "X", Entries: entry.NewOrderedMapFromEntries([]iface.IPFSLogEntry{forged}), Heads: []iface.IPFSLogEntry{forged}})
	require.NoError(t, err)

	_, err = a.Join(b, -1)
	require.NoError(t, err)
	for _, e := range a.Values().Slice() {
		if string(e.GetPayload()) == "forged" {
			t.Fatalf("an object that was never verified is part of the log's values")
		}
	}
	for _, e := range a.Heads().Slice() {
		require.NoError(t, e.Verify(ids[0].Provider, a.IO()), "a head of the log does not verify")
	}
}
