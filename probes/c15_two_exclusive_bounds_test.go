package test

// Before 'fix: start an exclusively bounded iteration below every given bound': fails, the iteration from two
// exclusive upper bounds starts below the last one only (the entries below the first bound are never emitted).

import (
	"context"
	"fmt"
	"testing"

	ipfslog "berty.tech/go-ipfs-log"
	idp "berty.tech/go-ipfs-log/identityprovider"
	"berty.tech/go-ipfs-log/iface"
	ks "berty.tech/go-ipfs-log/keystore"
	cid "github.com/ipfs/go-cid"
	dssync "github.com/ipfs/go-datastore/sync"
	mocknet "github.com/libp2p/go-libp2p/p2p/net/mock"
	"github.com/stretchr/testify/require"
)

func TestProbeIteratorTwoExclusiveBounds(t *testing.T) {
	ctx, cancel := context.WithCancel(context.Background())
	defer cancel()
	m := mocknet.New()
	defer m.Close()
	ipfs, closeNode := NewMemoryServices(ctx, t, m)
	defer closeNode()
	datastore := dssync.MutexWrap(NewIdentityDataStore(t))
	keystore, err := ks.NewKeystore(datastore)
	require.NoError(t, err)
	ids := make([]*idp.Identity, 2)
	for i, char := range []rune{'A', 'B'} {
		ids[i], err = idp.CreateIdentity(ctx, &idp.CreateIdentityOptions{Keystore: keystore, ID: fmt.Sprintf("user%c", char), Type: "orbitdb"})
		require.NoError(t, err)
	}
	la, _ := ipfslog.NewLog(ipfs, ids[0], &ipfslog.LogOptions{ID: "X"})
	lb, _ := ipfslog.NewLog(ipfs, ids[1], &ipfslog.LogOptions{ID: "X"})
	var lastA, lastB iface.IPFSLogEntry
	for i := 1; i <= 3; i++ {
		lastA, err = la.Append(ctx, []byte(fmt.Sprintf("A%d", i)), nil)
		require.NoError(t, err)
		lastB, err = lb.Append(ctx, []byte(fmt.Sprintf("B%d", i)), nil)
		require.NoError(t, err)
	}
	_, err = la.Join(lb, -1)
	require.NoError(t, err)

	for _, bounds := range [][]cid.Cid{{lastA.GetHash(), lastB.GetHash()}, {lastB.GetHash(), lastA.GetHash()}} {
		out := make(chan iface.IPFSLogEntry, 16)
		require.NoError(t, la.Iterator(&ipfslog.IteratorOptions{LT: bounds}, out))
		got := map[string]bool{}
		for e := range out {
			got[string(e.GetPayload())] = true
		}
		for _, want := range []string{"A1", "A2", "B1", "B2"} {
			if !got[want] {
				t.Fatalf("%s lies below an exclusive upper bound and is not emitted (got %v)", want, got)
			}
		}
		if got["A3"] || got["B3"] {
			t.Fatalf("an exclusive upper bound is emitted (got %v)", got)
		}
	}
}
