package test

// Before 'fix: rebuild the predecessor index when a bounded Join truncates the log': fails — the bounded Join
// drops A3 from the entries but keeps "A3 names A2" in the predecessor index, so when A2 comes back through a
// later merge it is refused as a head and the merged log loses A1 and A2 again.

import (
	"context"
	"fmt"
	"testing"

	ipfslog "berty.tech/go-ipfs-log"
	idp "berty.tech/go-ipfs-log/identityprovider"
	ks "berty.tech/go-ipfs-log/keystore"
	dssync "github.com/ipfs/go-datastore/sync"
	mocknet "github.com/libp2p/go-libp2p/p2p/net/mock"
	"github.com/stretchr/testify/require"
)

func TestProbeStaleNextAfterBoundedJoin(t *testing.T) {
	ctx, cancel := context.WithCancel(context.Background())
	defer cancel()
	m := mocknet.New()
	defer m.Close()
	ipfs, closeNode := NewMemoryServices(ctx, t, m)
	defer closeNode()
	datastore := dssync.MutexWrap(NewIdentityDataStore(t))
	keystore, err := ks.NewKeystore(datastore)
	require.NoError(t, err)
	ids := make([]*idp.Identity, 2)
	for i, char := range []rune{'A', 'B'} {
		ids[i], err = idp.CreateIdentity(ctx, &idp.CreateIdentityOptions{Keystore: keystore, ID: fmt.Sprintf("user%c", char), Type: "orbitdb"})
		require.NoError(t, err)
	}
	a, _ := ipfslog.NewLog(ipfs, ids[0], &ipfslog.LogOptions{ID: "X"})
	c, _ := ipfslog.NewLog(ipfs, ids[0], &ipfslog.LogOptions{ID: "X"})
	b, _ := ipfslog.NewLog(ipfs, ids[1], &ipfslog.LogOptions{ID: "X"})
	for i := 1; i <= 3; i++ {
		_, err = a.Append(ctx, []byte(fmt.Sprintf("A%d", i)), nil)
		require.NoError(t, err)
		if i == 2 {
			_, err = c.Join(a, -1) // c is a's state at A2
			require.NoError(t, err)
		}
	}
	for i := 1; i <= 5; i++ {
		_, err = b.Append(ctx, []byte(fmt.Sprintf("B%d", i)), nil)
		require.NoError(t, err)
	}
	_, err = a.Join(b, 1) // keeps only the newest entry
	require.NoError(t, err)
	require.Equal(t, 1, a.Len())
	_, err = a.Join(c, 10) // brings A1, A2 back; the bound is larger than what there is
	require.NoError(t, err)
	got := []string{}
	for _, e := range a.Values().Slice() {
		got = append(got, string(e.GetPayload()))
	}
	require.Equal(t, 3, a.Len(), "entries held after the second merge: %v", got)
	require.Len(t, got, 3, "values after the second merge: %v", got)
}
