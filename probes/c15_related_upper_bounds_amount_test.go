package test

// Before 'fix: do not take a start entry from the traversal stack twice': fails — with two causally related
// upper bounds the older one is on the stack as a start entry and is pushed again as a predecessor, it is
// counted twice, and an iteration asked for four entries emits three.

import (
	"context"
	"fmt"
	"testing"

	ipfslog "berty.tech/go-ipfs-log"
	idp "berty.tech/go-ipfs-log/identityprovider"
	"berty.tech/go-ipfs-log/iface"
	ks "berty.tech/go-ipfs-log/keystore"
	cid "github.com/ipfs/go-cid"
	dssync "github.com/ipfs/go-datastore/sync"
	mocknet "github.com/libp2p/go-libp2p/p2p/net/mock"
	"github.com/stretchr/testify/require"
)

func TestProbeIteratorRelatedBoundsAmount(t *testing.T) {
	ctx, cancel := context.WithCancel(context.Background())
	defer cancel()
	m := mocknet.New()
	defer m.Close()
	ipfs, closeNode := NewMemoryServices(ctx, t, m)
	defer closeNode()
	datastore := dssync.MutexWrap(NewIdentityDataStore(t))
	keystore, err := ks.NewKeystore(datastore)
	require.NoError(t, err)
	id, err := idp.CreateIdentity(ctx, &idp.CreateIdentityOptions{Keystore: keystore, ID: "userA", Type: "orbitdb"})
	require.NoError(t, err)
	l, _ := ipfslog.NewLog(ipfs, id, &ipfslog.LogOptions{ID: "X"})
	var es []iface.IPFSLogEntry
	for i := 1; i <= 5; i++ {
		e, err := l.Append(ctx, []byte(fmt.Sprintf("e%d", i)), nil)
		require.NoError(t, err)
		es = append(es, e)
	}
	amount := 4
	out := make(chan iface.IPFSLogEntry, 16)
	require.NoError(t, l.Iterator(&ipfslog.IteratorOptions{LTE: []cid.Cid{es[4].GetHash(), es[2].GetHash()}, Amount: &amount}, out))
	var got []string
	for e := range out {
		got = append(got, string(e.GetPayload()))
	}
	require.Equal(t, []string{"e5", "e4", "e3", "e2"}, got)
}
