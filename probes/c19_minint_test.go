package sorting_test

// Copy to entry/sorting/. Before 'fix: saturate the clock comparison when the time distance is the most
// negative integer': fails (LWW and FWW order the pair the same way).

import (
	"testing"

	"berty.tech/go-ipfs-log/entry"
	"berty.tech/go-ipfs-log/entry/sorting"
	"github.com/ipfs/go-cid"
	mh "github.com/multiformats/go-multihash"
)

func TestProbeMinInt(t *testing.T) {
	h1, _ := mh.Sum([]byte("a"), mh.SHA2_256, -1)
	h2, _ := mh.Sum([]byte("b"), mh.SHA2_256, -1)
	a := &entry.Entry{Hash: cid.NewCidV1(cid.Raw, h1), Clock: entry.NewLamportClock([]byte("x"), -(1 << 62))}
	b := &entry.Entry{Hash: cid.NewCidV1(cid.Raw, h2), Clock: entry.NewLamportClock([]byte("y"), 1<<62)}
	l, _ := sorting.LastWriteWins(a, b)
	f, _ := sorting.FirstWriteWins(a, b)
	if (l < 0) == (f < 0) {
		t.Fatalf("first-write-wins is not the reverse of last-write-wins: %d %d", l, f)
	}
}
