package test

// Before 'fix: refuse a merge candidate that is not filed under its own hash': fails — an entry of the other log
// that is filed under one key and claims the hash of an entry we hold passes the "not held yet" test by its key,
// passes Verify (the hash is not signed content) and is then stored under the claimed hash, replacing our entry.

import (
	"context"
	"fmt"
	"testing"

	ipfslog "berty.tech/go-ipfs-log"
	"berty.tech/go-ipfs-log/entry"
	idp "berty.tech/go-ipfs-log/identityprovider"
	"berty.tech/go-ipfs-log/iface"
	ks "berty.tech/go-ipfs-log/keystore"
	dssync "github.com/ipfs/go-datastore/sync"
	mocknet "github.com/libp2p/go-libp2p/p2p/net/mock"
	"github.com/stretchr/testify/require"
)

type forgedIndexLog struct {
	*ipfslog.IPFSLog
	entries iface.IPFSLogOrderedEntries
}

func (f *forgedIndexLog) GetEntries() iface.IPFSLogOrderedEntries { return f.entries }

func TestProbeForgedHashOverwritesOwnEntry(t *testing.T) {
	ctx, cancel := context.WithCancel(context.Background())
	defer cancel()
	m := mocknet.New()
	defer m.Close()
	ipfs, closeNode := NewMemoryServices(ctx, t, m)
	defer closeNode()
	datastore := dssync.MutexWrap(NewIdentityDataStore(t))
	keystore, err := ks.NewKeystore(datastore)
	require.NoError(t, err)
	ids := make([]*idp.Identity, 2)
	for i, char := range []rune{'A', 'B'} {
		ids[i], err = idp.CreateIdentity(ctx, &idp.CreateIdentityOptions{Keystore: keystore, ID: fmt.Sprintf("user%c", char), Type: "orbitdb"})
		require.NoError(t, err)
	}
	a, _ := ipfslog.NewLog(ipfs, ids[0], &ipfslog.LogOptions{ID: "X"})
	b, _ := ipfslog.NewLog(ipfs, ids[1], &ipfslog.LogOptions{ID: "X"})
	a1, err := a.Append(ctx, []byte("a1"), nil)
	require.NoError(t, err)
	_, err = a.Append(ctx, []byte("a2"), nil)
	require.NoError(t, err)
	b1, err := b.Append(ctx, []byte("b1"), nil)
	require.NoError(t, err)
	b2, err := b.Append(ctx, []byte("b2"), nil)
	require.NoError(t, err)

	// b's index as a hostile peer presents it: b1 is filed under its real key but claims to be a1
	forged := b1.Copy()
	forged.SetHash(a1.GetHash())
	idx := entry.NewOrderedMap()
	idx.Set(b2.GetHash().String(), b2)
	idx.Set(b1.GetHash().String(), forged)

	_, _ = a.Join(&forgedIndexLog{IPFSLog: b, entries: idx}, -1)

	got, ok := a.Get(a1.GetHash())
	require.True(t, ok)
	require.Equal(t, "a1", string(got.GetPayload()), "the entry held under a1's hash after the merge")
}
